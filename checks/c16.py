"""C16 - f_apply calls the function once, with every argument in its place."""
import itertools

from mc.harness import harness, oracle
from mc.kit import E2, ProbeFuture, snapshot, brief
from more_executors._impl import futures as F

KWNAMES = (("a",), ("a", "b"), ("x", "fn"), ("key", "x"), ("args", "kwargs"), ("b", "a", "x"))


class FalsyError(Exception):
    """an exception object that is falsy (defines __len__)"""

    def __init__(self, tag):
        Exception.__init__(self, tag)
        self.tag = tag

    def __len__(self):
        return 0


def _params(maxpos, kwsets):
    out = []
    for npos in range(0, maxpos + 1):
        for kws in ((),) + tuple(kwsets):
            ninputs = 1 + npos + len(kws)
            for bad in [None] + list(range(ninputs)) + ["fn_raises"]:
                for pre in (False, True):
                    out.append(dict(npos=npos, kws=kws, bad=bad, pre=pre))
                    if isinstance(bad, int) and ninputs <= 3:
                        # the failing input fails with a falsy exception object / is an f_proxy future
                        out.append(dict(npos=npos, kws=kws, bad=bad, pre=pre, falsy=True))
                        out.append(dict(npos=npos, kws=kws, bad=bad, pre=pre, proxy=True))
    return out


def body(mc, p):
    npos, kws = p["npos"], p["kws"]
    calls = []

    def target(*args, **kwargs):
        calls.append((args, dict(kwargs)))
        mc.emit("fn.call", args=brief(args), kwargs=brief(kwargs), nresolved=sum(1 for f in allf if f.done()))
        if p["bad"] == "fn_raises":
            raise E2("fn")
        return ("ret", args, tuple(sorted(kwargs.items())))
    ffn = ProbeFuture(mc, "fn")
    fpos = [ProbeFuture(mc, "p%d" % i) for i in range(npos)]
    fkw = dict((k, ProbeFuture(mc, "k_" + k)) for k in kws)
    allf = [ffn] + fpos + [fkw[k] for k in kws]

    def resolve(j):
        f = allf[j]
        f.set_running_or_notify_cancel()
        if p["bad"] == j:
            f.set_exception(FalsyError("in%d" % j) if p.get("falsy") else E2("in%d" % j))
        elif j == 0:
            f.set_result(target)
        elif j <= npos:
            f.set_result("P%d" % (j - 1))
        else:
            f.set_result("K" + kws[j - 1 - npos])
    if p["pre"]:
        for j in range(len(allf)):
            resolve(j)
    if p.get("proxy") and isinstance(p["bad"], int):
        j = p["bad"]
        if j == 0:
            ffn_in = F.f_proxy(ffn)
            out = F.f_apply(ffn_in, *fpos, **fkw)
        elif j <= npos:
            fpos2 = list(fpos)
            fpos2[j - 1] = F.f_proxy(fpos[j - 1])
            out = F.f_apply(ffn, *fpos2, **fkw)
        else:
            fkw2 = dict(fkw)
            key = kws[j - 1 - npos]
            fkw2[key] = F.f_proxy(fkw[key])
            out = F.f_apply(ffn, *fpos, **fkw2)
    else:
        out = F.f_apply(ffn, *fpos, **fkw)
    mc.emit("built", out=snapshot(out))
    if not p["pre"]:
        pending = list(range(len(allf)))
        if p.get("order"):
            n = len(pending)
            pending = {"asc": pending, "desc": pending[::-1], "fnlast": pending[1:] + [0],
                       "stride": [j for k in range(3) for j in range(k, n, 3)]}[p["order"]]
        while pending:
            j = pending.pop(mc.choose(len(pending)) if not p.get("order") else 0)
            resolve(j)
            mc.emit("resolved", j=j, out=snapshot(out), ncalls=len(calls))
    mc.observe(out=snapshot(out), ncalls=len(calls),
               call=(brief(calls[0][0]), brief(calls[0][1])) if calls else None)


def check(x):
    p = x.p
    if not x.require(x.end == "done" and "out" in x.obs, "bad-ending", end=x.end):
        return
    npos, kws = p["npos"], p["kws"]
    got = x.obs["out"]
    wargs = tuple("P%d" % i for i in range(npos))
    wkw = tuple(sorted((k, "K" + k) for k in kws))
    if isinstance(p["bad"], int):
        want = ("err", ("FalsyError(in%d)" if p.get("falsy") else "E2(in%d)") % p["bad"])
        x.require(got == want, "failing-input-not-propagated", detail=repr(got), falsy=bool(p.get("falsy")), proxy=bool(p.get("proxy")))
        x.require(x.obs["ncalls"] == 0, "fn-called-despite-failed-input")
        return
    x.require(x.obs["ncalls"] == 1, "fn-call-count", n=x.obs["ncalls"], detail="out=%r" % (got,))
    if x.obs["call"] is not None:
        a, k = x.obs["call"]
        x.require(a == wargs, "positional-arguments-wrong", detail="got %r want %r" % (a, wargs))
        x.require(k == wkw, "keyword-arguments-wrong", detail="got %r want %r" % (k, wkw))
    for e in x.events("fn.call"):
        x.require(e["nresolved"] == 1 + npos + len(kws), "fn-called-before-all-inputs-resolved")
    if p["bad"] == "fn_raises":
        x.require(got == ("err", "E2(fn)"), "fn-exception-not-output", detail=repr(got))
    else:
        x.require(got == ("ok", brief(("ret", wargs, wkw))), "wrong-result", detail=repr(got))
    # not resolved before the last input
    rs = x.events("resolved")
    for e in rs[:-1]:
        x.require(e["out"][0] == "pending" and e["ncalls"] == 0, "resolved-early")


harness("c16.apply", prop="C16", traced=(), horizon=20, params=_params(3, KWNAMES[:4]))(body)
oracle("c16.apply")(check)


def _wide():
    """many inputs: fixed completion-order families instead of every permutation"""
    out = []
    many = tuple("k%02d" % i for i in range(12))
    for npos, kws in ((10, ()), (25, ()), (40, ("a", "b")), (12, many), (0, many)):
        n = 1 + npos + len(kws)
        for bad in (None, 0, 1, n // 2, n - 1, "fn_raises"):
            out.append(dict(npos=npos, kws=kws, bad=bad, pre=True))
            for order in ("asc", "desc", "fnlast", "stride"):
                out.append(dict(npos=npos, kws=kws, bad=bad, pre=False, order=order))
    return out


harness("c16.apply.wide", prop="C16", traced=(), horizon=20, params=_wide())(body)
oracle("c16.apply.wide")(check)
# every completion permutation is enumerated, so the number of inputs is capped at 6 (720 orders)
harness("c16.apply.big", prop="C16", traced=(), horizon=20,
        params=[q for q in _params(4, KWNAMES) if 1 + q["npos"] + len(q["kws"]) <= 6])(body)
oracle("c16.apply.big")(check)


def _cparams():
    return [dict(npos=a, kws=k, bad=None, pre=False) for a in (1, 2) for k in ((), ("a",), ("x", "fn"))]


def cbody(mc, p):
    npos, kws = p["npos"], p["kws"]
    calls = []

    def target(*args, **kwargs):
        calls.append((args, dict(kwargs)))
        return ("ret", args, tuple(sorted(kwargs.items())))
    ffn = ProbeFuture(mc, "fn")
    fpos = [ProbeFuture(mc, "p%d" % i) for i in range(npos)]
    fkw = dict((k, ProbeFuture(mc, "k_" + k)) for k in kws)
    allf = [ffn] + fpos + [fkw[k] for k in kws]
    out = F.f_apply(ffn, *fpos, **fkw)

    def resolver(j):
        def run():
            f = allf[j]
            f.set_running_or_notify_cancel()
            if j == 0:
                f.set_result(target)
            elif j <= npos:
                f.set_result("P%d" % (j - 1))
            else:
                f.set_result("K" + kws[j - 1 - npos])
        return run
    js = list(range(len(allf)))
    if p.get("rev"):
        js.reverse()        # the argument futures' resolvers come first in the default order
    for j in js:
        mc.spawn(resolver(j), "r%d" % j)
    mc.sleep(3)
    mc.observe(out=snapshot(out), ncalls=len(calls),
               call=(brief(calls[0][0]), brief(calls[0][1])) if calls else None)


harness("c16.conc", prop="C16", traced=("futures.apply", "map", "flat_map", "common"), horizon=20, params=_cparams())(cbody)
oracle("c16.conc")(check)

harness("c16.conc.narrow", prop="C16", traced=("common", "map"), horizon=20,
        params=[dict(npos=1, kws=(), bad=None, pre=False), dict(npos=1, kws=(), bad=None, pre=False, rev=True),
                dict(npos=0, kws=("a",), bad=None, pre=False, rev=True)])(cbody)
oracle("c16.conc.narrow")(check)

PLAN = {
    "quick": [dict(harness="c16.apply", bound=0), dict(harness="c16.apply.wide", bound=0), dict(harness="c16.conc", bound=2, select=lambda p: p["npos"] == 1 and not p["kws"]),
              dict(harness="c16.conc", bound=1), dict(harness="c16.conc.narrow", bound=3)],
    "thorough": [dict(harness="c16.apply.big", bound=0), dict(harness="c16.apply.wide", bound=0), dict(harness="c16.conc", bound=2), dict(harness="c16.conc.narrow", bound=3)],
}

"""C08 - poll: one poll at a time, exact descriptor set, first yield wins, prompt polls."""
from mc.harness import harness, oracle
from mc.kit import E, E2, FalsyE, ManualExecutor, snapshot, brief
from mc.sched import EPS
from more_executors._impl.poll import PollExecutor

TOL = 8 * EPS
KINDS = ("yield1", "yield2", "exc", "twice", "raise1", "raise2", "interval", "only0")
CFNS = (None, "true", "false", "raises")


def _params():
    out = []
    for nfut in (1, 2, 3):
        for kind in KINDS:
            for cfn in CFNS:
                for canc in (False, True):
                    for notify in (False, True):
                        if cfn is not None and not canc:
                            continue
                        if notify and (canc or kind not in ("yield2", "interval")):
                            continue
                        if nfut == 3 and (canc or notify) and kind not in ("yield1", "raise1"):
                            continue
                        if kind == "only0":
                            continue
                        out.append(dict(nfut=nfut, kind=kind, cfn=cfn, canc=canc, notify=notify))
    # the poll function resolves only the first future; the *second* (still polling) one is
    # cancelled while the first is being deregistered; both delegates finish at t=0
    for cfn in CFNS:
        for nfut in (2, 3):
            out.append(dict(nfut=nfut, kind="only0", cfn=cfn, canc=True, notify=False, target=1))
    # the failing delegate fails with a falsy exception object: still "failed", never polled
    for kind in ("yield1", "raise1", "exc"):
        out.append(dict(nfut=3, kind=kind, cfn=None, canc=False, notify=False, falsyfail=True))
    return out


def body(mc, p):
    base = ManualExecutor(mc, mode="manual")
    kind = p["kind"]
    st = {"calls": 0, "active": 0, "seen": {}}

    def poll_fn(ds):
        st["calls"] += 1
        k = st["calls"]
        st["active"] += 1
        shown = [d.result for d in ds]
        mc.emit("poll.begin", k=k, shown=tuple(shown), active=st["active"])
        try:
            mc.point()
            if kind == "raise1" and k == 1 or kind == "raise2" and k == 2:
                mc.emit("poll.raise", k=k, shown=tuple(shown))
                raise E2("poll#%d" % k)
            for d in ds:
                n = st["seen"].get(d.result, 0) + 1
                st["seen"][d.result] = n
                if kind == "only0" and d.result != "r0":
                    continue
                if kind in ("yield1", "raise1", "raise2", "interval", "only0") or (kind == "yield2" and n >= 2):
                    mc.emit("poll.yield", k=k, r=d.result, out=("ok", "y:" + d.result))
                    d.yield_result("y:" + d.result)
                elif kind == "exc":
                    mc.emit("poll.yield", k=k, r=d.result, out=("err", "E2(x:%s)" % d.result))
                    d.yield_exception(E2("x:" + d.result))
                elif kind == "twice":
                    mc.emit("poll.yield", k=k, r=d.result, out=("ok", "first:" + d.result))
                    d.yield_result("first:" + d.result)
                    mc.point()
                    mc.emit("poll.yield", k=k, r=d.result, out=("ok", "second:" + d.result))
                    d.yield_result("second:" + d.result)
                    d.yield_exception(E2("third"))
            if kind == "interval":
                return 2.0
            return None
        finally:
            st["active"] -= 1
            mc.emit("poll.end", k=k)

    cfn = None
    if p["cfn"] is not None:
        def cfn(result):
            mc.emit("cancel_fn", arg=brief(result))
            mc.point()
            if p["cfn"] == "true":
                return True
            if p["cfn"] == "false":
                return False
            raise E("cancel_fn")
    ex = PollExecutor(base, poll_fn, cancel_fn=cfn, default_interval=5.0)
    fs = []

    def mk(j):
        def fn():
            if j == 1 and kind != "only0":
                mc.sleep(1.5)        # second delegate completes later (virtual time)
            mc.point()
            if j == 2 and kind != "only0":
                raise (FalsyE if p.get("falsyfail") else E)("delegate2")  # third delegate fails: never polled
            return "r%d" % j
        return fn
    for j in range(p["nfut"]):
        f = ex.submit(mk(j))
        f.add_done_callback(lambda _f, j=j: mc.emit("derived.done", j=j, snap=snapshot(_f)))
        fs.append(f)
    mc.spawn(base.worker_loop, "w0", client=False)
    mc.spawn(base.worker_loop, "w1", client=False)
    if p["canc"]:
        def canceller():
            for j in (p.get("target", 0),):
                mc.call("cancel:%d" % j, fs[j].cancel)
        mc.spawn(canceller, "can")
    if p["notify"]:
        def notifier():
            mc.sleep(3.25)
            mc.call("notify", ex.notify)
        mc.spawn(notifier, "notif")
    mc.sleep(14)
    mc.observe(final=tuple(snapshot(f) for f in fs))
    ex.shutdown(wait=False)
    base.down = True


def check(x):
    p = x.p
    if not x.require(x.end == "done" and "final" in x.obs, "bad-ending", end=x.end):
        return
    log = x.log
    begins = [e for e in log if e["kind"] == "poll.begin"]
    ends = {e["k"]: e for e in log if e["kind"] == "poll.end"}
    # never concurrently with itself
    x.require(all(e["active"] == 1 for e in begins), "poll-fn-overlap")
    for a, b in zip(begins, begins[1:]):
        x.require(a["k"] in ends and ends[a["k"]]["seq"] < b["seq"], "poll-fn-overlap")
    resolved_ok = {}   # r -> seq of base.resolved (delegate finished successfully)
    end_t = {}
    for e in log:
        if e["kind"] == "base.resolved":
            be = [q for q in log if q["kind"] == "base.end" and q["i"] == e["i"]][0]
            if be["out"][0] == "ok":
                resolved_ok[be["out"][1]] = e["seq"]
                end_t[be["out"][1]] = be["t"]
    yields = [e for e in log if e["kind"] == "poll.yield"]
    raises = [e for e in log if e["kind"] == "poll.raise"]
    cancel_true = {}   # j -> seq of return
    for e in log:
        if e["kind"] == "ret" and e["op"].startswith("cancel:") and e["val"] is True:
            cancel_true[int(e["op"].split(":")[1])] = e["seq"]
    first_resolution = {}   # r -> seq at which F's *resolving call* returned
    for e in yields:
        first_resolution.setdefault(e["r"], e["seq"])
    for e in raises:
        for r in e["shown"]:
            first_resolution.setdefault(r, e["seq"])
    for j, s in cancel_true.items():
        # the future ended cancelled: its resolving call is that cancel() (a yield made while the
        # cancel was in progress resolved nothing), and it counts from the moment it returned
        first_resolution["r%d" % j] = s
    prev_end = 0
    for b in begins:
        # the library takes its snapshot somewhere between the end of the previous call and the
        # entry of this one: only futures eligible before that window opened must be present
        window_open = prev_end
        prev_end = ends[b["k"]]["seq"] if b["k"] in ends else b["seq"]
        shown = list(b["shown"])
        x.require(len(shown) == len(set(shown)), "duplicate-descriptor", detail=repr(shown))
        for r, s in resolved_ok.items():
            if s < window_open and not (r in first_resolution and first_resolution[r] < b["seq"]):
                # eligible and unresolved before the call began; a cancel in progress may take it out
                j = int(r[1:])
                cancelling = any(e["kind"] == "call" and e["op"] == "cancel:%d" % j and e["seq"] < b["seq"] for e in log) \
                    and not any(e["kind"] == "ret" and e["op"] == "cancel:%d" % j and e["seq"] < b["seq"] for e in log)
                if not cancelling:
                    x.require(r in shown, "descriptor-missing", detail="poll #%d (seq %d) not shown %s, eligible since seq %d"
                              % (b["k"], b["seq"], r, s))
        for r in shown:
            if r in first_resolution and first_resolution[r] < window_open:
                x.require(False, "stale-descriptor", detail="poll #%d shown %s, resolved at seq %d < %d"
                          % (b["k"], r, first_resolution[r], b["seq"]))
            x.require(r in resolved_ok or any(q["kind"] == "base.end" and q["out"] == ("ok", r) and q["seq"] < b["seq"] for q in log),
                      "descriptor-for-unfinished-delegate", r=r)
    # outcomes: first yield wins; a raising poll fails exactly what it was shown
    final = x.obs["final"]
    for j, snap in enumerate(final):
        r = "r%d" % j
        if j in cancel_true:
            x.require(snap[0] == "cancelled", "true-cancel-not-sticky")
            continue
        ys = [e for e in yields if e["r"] == r]
        rs = [e for e in raises if r in e["shown"]]
        firsts = sorted([(e["seq"], e["out"]) for e in ys] + [(e["seq"], ("err", "E2(poll#%d)" % e["k"])) for e in rs])
        if firsts:
            x.require(snap == firsts[0][1], "not-first-yield", detail="future %d is %r, first resolution %r" % (j, snap, firsts[0][1]))
        elif j == 2 and p["kind"] != "only0":
            x.require(snap == ("err", "%s(delegate2)" % ("FalsyE" if p.get("falsyfail") else "E")), "failed-delegate-outcome",
                      detail=repr(snap))
        else:
            x.require(snap[0] == "pending", "resolved-without-yield", detail=repr(snap))
    # prompt first sight
    for r, t in end_t.items():
        j = int(r[1:])
        sight = [b for b in begins if r in b["shown"]]
        gone_before = r in first_resolution and (not sight or first_resolution[r] < sight[0]["seq"])
        if sight:
            x.require(sight[0]["t"] <= t + TOL, "late-first-poll", r=r,
                      detail="%s finished at %r, first shown at %r" % (r, t, sight[0]["t"]),
                      lateness=round(sight[0]["t"] - t, 2))
        elif not gone_before and j not in cancel_true:
            cancelling = any(e["kind"] == "call" and e["op"] == "cancel:%d" % j for e in log)
            x.require(cancelling, "never-polled", r=r)
    # notify() triggers a poll without waiting out the interval
    for e in log:
        if e["kind"] == "ret" and e["op"] == "notify":
            nxt = [b for b in begins if b["seq"] > e["seq"]]
            x.require(bool(nxt) and nxt[0]["t"] <= e["t"] + TOL, "notify-not-prompt",
                      detail="notify at %r, next poll at %r" % (e["t"], nxt[0]["t"] if nxt else None))
    # cancel function
    for e in log:
        if e["kind"] == "cancel_fn":
            ok = any(q["kind"] == "base.end" and q["out"] == ("ok", e["arg"]) and q["seq"] < e["seq"] for q in log)
            x.require(ok, "cancel-fn-outside-polling-stage", arg=e["arg"])
    if p["cfn"] in ("false", "raises"):
        for e in log:
            if e["kind"] == "ret" and e["op"].startswith("cancel:"):
                c = [q for q in log if q["kind"] == "call" and q["op"] == e["op"]][0]
                vetoed = any(q["kind"] == "cancel_fn" and c["seq"] < q["seq"] < e["seq"] for q in log)
                if vetoed:
                    x.require(e["val"] is False, "veto-ignored")
                # in the polling stage during the whole call (delegate finished before, not resolved
                # by anything else): the cancel function must have been consulted and its veto kept
                j = int(e["op"].split(":")[1])
                r = "r%d" % j
                polling = r in resolved_ok and resolved_ok[r] < c["seq"] and not any(
                    q["r"] == r for q in yields) and not any(r in q["shown"] for q in raises)
                if polling:
                    x.require(e["val"] is False, "veto-not-consulted", detail="cancel(%s) returned %r" % (r, e["val"]))
    for name, exc in x.deaths:
        x.require(False, "thread-died", thread=name.split("-")[0], exc=exc[0], detail=exc[2][-500:])


harness("c08.poll", prop="C08", traced=(), horizon=40, params=_params())(body)
oracle("c08.poll")(check)
harness("c08.poll.lines", prop="C08", traced=("poll", "event"), horizon=40,
        params=[q for q in _params() if q["nfut"] <= 2])(body)
oracle("c08.poll.lines")(check)

PLAN = {
    "quick": [dict(harness="c08.poll", bound=2, select=lambda p: p["nfut"] <= 2),
              dict(harness="c08.poll", bound=1, select=lambda p: p["nfut"] == 3),
              dict(harness="c08.poll.lines", bound=1)],
    "thorough": [dict(harness="c08.poll", bound=3, select=lambda p: p["nfut"] <= 2),
                 dict(harness="c08.poll", bound=2, select=lambda p: p["nfut"] == 3),
                 dict(harness="c08.poll.lines", bound=2)],
}

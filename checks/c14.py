"""C14 - f_and / f_or are and / or folds over the order in which inputs finish."""
import itertools

from concurrent.futures import Future

from mc.harness import harness, oracle
from mc.kit import E2, ProbeFuture, snapshot, brief
from more_executors._impl import futures as F

VALS = {"1": 1, "x": "x", "[0]": [0], "0": 0, "''": "", "None": None, "[]": []}
OUTS = tuple(VALS) + ("exc", "cancelled", "never", "running")
SMALL = ("1", "0", "None", "exc", "cancelled", "never", "running")


class FalsyX(E2):
    """a failure whose exception object is falsy"""

    def __len__(self):
        return 0


def truthy(o):
    return o in VALS and bool(VALS[o])


def falsy(o):
    return o in ("exc", "fexc", "cancelled") or (o in VALS and not VALS[o])


def ref_bool(op, outs, order):
    """order: sequence of events ('in', i) / ('cancel',).  Returns (outcome of the output,
    index of the step at which it was decided or None)."""
    n = len(outs)
    finished = []
    for k, ev in enumerate(order):
        if ev[0] == "cancel":
            return ("cancelled", None), k
        i = ev[1]
        o = outs[i]
        finished.append(i)
        remaining = [j for j in range(n) if j not in finished]
        decide = (truthy(o) if op == "or" else falsy(o)) or not remaining
        if decide:
            if o == "cancelled":
                return ("cancelled", None), k
            if o == "exc":
                return ("err", "E2(x%d)" % i), k
            if o == "fexc":
                return ("err", "FalsyX(x%d)" % i), k
            return ("ok", brief(VALS[o])), k
    return ("pending", None), None


def finish_input(mc, f, i, o):
    mc.emit("in.call", i=i)
    if o == "cancelled":
        Future.cancel(f)            # the harness's own cancel is not counted by the probe
        f.set_running_or_notify_cancel()
    elif f.set_running_or_notify_cancel():
        if o == "exc":
            f.set_exception(E2("x%d" % i))
        elif o == "fexc":
            f.set_exception(FalsyX("x%d" % i))
        else:
            f.set_result(VALS[o])
    mc.emit("in.ret", i=i)


def _hparams(n, domain):
    out = []
    for op in ("or", "and"):
        for outs in itertools.product(domain, repeat=n):
            out.append(dict(op=op, outs=outs, shield=None, dup=False))
    return out


def hbody(mc, p):
    """history enumeration: at each step the environment picks which pending input finishes
    next, or cancels the output, or stops (every prefix is a history of its own)."""
    outs = p["outs"]
    n = len(outs)
    ins = [ProbeFuture(mc, "in%d" % i) for i in range(n)]
    for i in range(n):
        if outs[i] == "running":
            ins[i].set_running_or_notify_cancel()       # refuses cancel(), never finishes
    args = list(ins)
    if p["shield"] is not None:
        args[p["shield"]] = F.f_nocancel(ins[p["shield"]])
    if p["dup"]:
        args = args + [args[0]]
    if p.get("proxy") is not None:
        args[p["proxy"]] = F.f_proxy(ins[p["proxy"]])        # the input is itself a library future
    out = (F.f_or if p["op"] == "or" else F.f_and)(*args)
    if p.get("cbcancel"):
        # a consumer's callback on the output that cancels the sibling inputs
        out.add_done_callback(lambda _f: [i.cancel() for i in ins])
    order = []
    pending = [i for i in range(n) if outs[i] not in ("never", "running")]
    cancelled_out = False
    while True:
        choices = [("in", i) for i in pending]
        if not cancelled_out:
            choices.append(("cancel",))
        choices.append(("stop",))
        c = choices[mc.choose(len(choices))]
        if c[0] == "stop":
            break
        if c[0] == "cancel":
            r = out.cancel()
            mc.emit("out.cancel", ret=r)
            cancelled_out = True
            order.append(("cancel", r))
        else:
            i = c[1]
            pending.remove(i)
            finish_input(mc, ins[i], i, outs[i])
            order.append(("in", i))
        mc.emit("step", ev=c, out=snapshot(out))
    mc.observe(out=snapshot(out), order=tuple(order), ncancel=tuple(f.cancel_calls for f in ins),
               states=tuple(f._state for f in ins), same=(out is ins[0]) if n == 1 else None)


def hcheck(x):
    p = x.p
    if not x.require(x.end == "done" and "out" in x.obs, "bad-ending", end=x.end):
        return
    outs = p["outs"]
    n = len(outs)
    if n == 1 and not p["dup"] and p["shield"] is None:
        x.require(x.obs["same"] is True, "single-input-not-returned-as-is")
        return
    order = x.obs["order"]
    # replay the reference on every prefix: the output must agree after each step
    steps = [e for e in x.log if e["kind"] == "step"]
    seq = []
    decided_at = None
    for k, ev in enumerate(order):
        if ev[0] == "cancel":
            want_prev, dk = ref_bool(p["op"], outs, seq)
            if dk is not None:
                # already decided: cancel() changes nothing; it returns True only if the
                # output had been decided as cancelled
                x.require(ev[1] is (want_prev[0] == "cancelled"), "cancel-result-after-decided")
            else:
                x.require(ev[1] is True, "cancel-false-while-undecided")
                seq.append(("cancel",))
        else:
            seq.append(ev)
        want, dk = ref_bool(p["op"], outs, seq)
        got = steps[k]["out"]
        x.require(got == want, "wrong-outcome", op=p["op"], detail="outs=%r history=%r got %r want %r" % (outs, seq, got, want))
        if dk is not None and decided_at is None:
            decided_at = k
    # once decided / cancelled every input still pending has been asked to cancel
    want, dk = ref_bool(p["op"], outs, seq)
    if dk is not None:
        done_inputs = set(ev[1] for ev in order if ev[0] == "in")
        for i in range(n):
            finished_before = i in [ev[1] for ev in order[:decided_at + 1] if ev[0] == "in"]
            if finished_before:
                continue
            if p["shield"] == i:
                x.require(x.obs["ncancel"][i] == 0, "cancel-through-nocancel")
            else:
                x.require(x.obs["ncancel"][i] >= 1, "pending-input-not-cancelled", i=i, op=p["op"],
                          detail="outs=%r history=%r ncancel=%r" % (outs, order, x.obs["ncancel"]))


harness("c14.hist2", prop="C14", traced=(), horizon=20, params=_hparams(2, OUTS) + _hparams(1, SMALL))(hbody)
oracle("c14.hist2")(hcheck)
harness("c14.hist3", prop="C14", traced=(), horizon=20, params=_hparams(3, SMALL))(hbody)
oracle("c14.hist3")(hcheck)
harness("c14.hist3full", prop="C14", traced=(), horizon=20, params=_hparams(3, OUTS))(hbody)
oracle("c14.hist3full")(hcheck)
harness("c14.hist4", prop="C14", traced=(), horizon=20, params=_hparams(4, ("1", "0", "exc", "cancelled", "never")))(hbody)
oracle("c14.hist4")(hcheck)
_falsy = [q for q in _hparams(2, ("1", "0", "fexc", "cancelled", "never")) + _hparams(3, ("1", "0", "fexc"))
          if "fexc" in q["outs"]]
harness("c14.falsy", prop="C14", traced=(), horizon=20, params=_falsy)(hbody)
oracle("c14.falsy")(hcheck)
_special = []
for _op in ("or", "and"):
    for _outs in itertools.product(SMALL, repeat=2):
        _special.append(dict(op=_op, outs=_outs, shield=0, dup=False))
        _special.append(dict(op=_op, outs=_outs, shield=1, dup=False))
        _special.append(dict(op=_op, outs=_outs, shield=None, dup=True))
        _special.append(dict(op=_op, outs=_outs, shield=None, dup=False, proxy=0))
        _special.append(dict(op=_op, outs=_outs, shield=None, dup=False, proxy=1))
        _special.append(dict(op=_op, outs=_outs, shield=None, dup=False, cbcancel=True))
harness("c14.special", prop="C14", traced=(), horizon=20, params=_special)(hbody)
oracle("c14.special")(hcheck)


# ------------------------------------------------------------------ concurrent completions
def _cparams():
    out = []
    for op in ("or", "and"):
        for outs in itertools.product(("1", "0", "exc", "cancelled"), repeat=2):
            out.append(dict(op=op, outs=outs, cancel=False))
            out.append(dict(op=op, outs=outs, cancel=True))
        for outs in (("0", "1", "0"), ("1", "1", "0"), ("0", "0", "1"), ("exc", "1", "cancelled"), ("1", "exc", "1"),
                     ("0", "exc", "cancelled")):
            out.append(dict(op=op, outs=outs, cancel=False))
    return out


def cbody(mc, p):
    outs = p["outs"]
    n = len(outs)
    ins = [ProbeFuture(mc, "in%d" % i) for i in range(n)]
    out = (F.f_or if p["op"] == "or" else F.f_and)(*ins)
    for i in range(n):
        mc.spawn(lambda i=i: finish_input(mc, ins[i], i, outs[i]), "end%d" % i)
    if p["cancel"]:
        def can():
            mc.emit("c.call")
            r = out.cancel()
            mc.emit("c.ret", ret=r)
        mc.spawn(can, "can")
    mc.sleep(3)
    mc.observe(out=snapshot(out), ncancel=tuple(f.cancel_calls for f in ins))


def ccheck(x):
    p = x.p
    if not x.require(x.end == "done" and "out" in x.obs, "bad-ending", end=x.end):
        return
    outs = p["outs"]
    n = len(outs)
    ops = []
    for i in range(n):
        a = [e for e in x.log if e["kind"] == "in.call" and e["i"] == i][0]["seq"]
        b = [e for e in x.log if e["kind"] == "in.ret" and e["i"] == i][0]["seq"]
        ops.append((("in", i), a, b))
    cret = None
    if p["cancel"]:
        a = [e for e in x.log if e["kind"] == "c.call"][0]["seq"]
        b = [e for e in x.log if e["kind"] == "c.ret"][0]
        cret = b["ret"]
        ops.append((("cancel",), a, b["seq"]))
    got = x.obs["out"]
    ok = False
    if cret is True:
        # A successful cancel() of the output wins over a decision that was taken (under the
        # operation's lock) but not yet written to the output: the property's fold speaks about
        # the outcome of an output that was not cancelled.  Only stickiness is demanded here.
        x.require(got[0] == "cancelled", "true-cancel-not-sticky", got=got[0])
        return
    for perm in itertools.permutations(ops):
        # consistent with real-time precedence?
        good = True
        for u in range(len(perm)):
            for v in range(u + 1, len(perm)):
                if perm[v][2] < perm[u][1]:
                    good = False
        if not good:
            continue
        seq = []
        c_ok = True
        for ev, _, _ in perm:
            if ev[0] == "cancel":
                w, dk = ref_bool(p["op"], outs, seq)
                if dk is not None:
                    c_ok = c_ok and (cret is (w[0] == "cancelled"))
                    continue
                c_ok = c_ok and (cret is True)
            seq.append(ev)
        want, _ = ref_bool(p["op"], outs, seq)
        if want == got and c_ok:
            ok = True
            break
    x.require(ok, "not-linearizable", op=p["op"], detail="outs=%r got %r cancel=%r" % (outs, got, cret))


harness("c14.conc", prop="C14", traced=("futures.bool", "futures.base"), horizon=20, params=_cparams())(cbody)
oracle("c14.conc")(ccheck)

PLAN = {
    "quick": [dict(harness="c14.hist2", bound=0), dict(harness="c14.falsy", bound=0), dict(harness="c14.hist3", bound=0), dict(harness="c14.special", bound=0),
              dict(harness="c14.conc", bound=2)],
    "thorough": [dict(harness="c14.hist2", bound=0), dict(harness="c14.falsy", bound=0), dict(harness="c14.hist3full", bound=0), dict(harness="c14.hist4", bound=0),
                 dict(harness="c14.special", bound=0), dict(harness="c14.conc", bound=3)],
}

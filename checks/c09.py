"""C09 - timeouts fire exactly once, never early, and at the deadline."""
from mc.harness import harness, oracle
from mc.kit import E, ManualExecutor, ProbeFuture, snapshot
from mc.sched import EPS
from more_executors._impl.timeout import TimeoutExecutor
from more_executors._impl import futures as F

TOL = 8 * EPS
NEVER = None


def _params():
    out = []
    a_variants = [(0.0, 3.0, NEVER), (0.0, 1.0, NEVER), (0.0, 2.0, +1.0)]
    for a in a_variants:
        for sub in (0.0, 0.5, 1.0):
            for to in (1.0, 2.0, 3.0):
                for comp in (-1.0, 0.0, +1.0, NEVER):
                    out.append(dict(jobs=(a, (sub, to, comp)), api="executor", user_cancel=False))
    # a future that is RUNNING at its deadline (its one cancel attempt fails), with later activity
    for jobs in (((0.0, 1.0, "running"), (2.0, 1.0, NEVER)), ((0.0, 1.0, "running"), (0.5, 2.0, NEVER), (3.0, 0.5, NEVER)),
                 ((0.0, 2.0, "running"), (0.0, 1.0, "running"))):
        out.append(dict(jobs=jobs, api="executor", user_cancel=False))
    # a delegate whose submit() takes one virtual second: the deadline counts from creation
    for jobs in (((0.0, 2.0, NEVER),), ((0.0, 1.0, NEVER), (0.0, 2.0, NEVER))):
        out.append(dict(jobs=jobs, api="executor", user_cancel=False, submit_delay=1.0))
    # the cancel attempt on a running future takes 1.5 virtual seconds and is refused: a later deadline
    # must still be served on time
    for jobs in (((0.0, 1.0, "slow_refuse"), (0.0, 3.5, NEVER)), ((0.0, 1.0, "slow_refuse"), (2.0, 1.0, NEVER)),
                 ((0.0, 1.0, "slow_refuse"), (0.0, 2.0, NEVER))):
        out.append(dict(jobs=jobs, api="executor", user_cancel=False))
    # a done-callback of a timed-out future submits again to the same executor (retry-on-timeout)
    for jobs in (((0.0, 1.0, NEVER),), ((0.0, 1.0, NEVER), (0.5, 2.0, NEVER))):
        out.append(dict(jobs=jobs, api="executor", user_cancel=False, resubmit=True))
    for jobs in (((0.0, 3.0, NEVER), (0.5, 1.0, NEVER), (1.0, 1.0, NEVER)),
                 ((0.0, 2.0, NEVER), (0.0, 2.0, NEVER), (1.0, 0.5, -0.25)),
                 ((0.0, 1.0, 0.0), (0.5, 2.0, NEVER), (0.5, 1.0, +1.0))):
        out.append(dict(jobs=jobs, api="executor", user_cancel=False))
        out.append(dict(jobs=jobs, api="executor", user_cancel=True))
    for jobs in (((0.0, 3.0, NEVER), (0.5, 1.0, NEVER)), ((0.0, 1.0, NEVER), (0.0, 2.0, -1.0)),
                 ((0.0, 2.0, NEVER), (1.0, 0.5, NEVER))):
        out.append(dict(jobs=jobs, api="f_timeout", user_cancel=False))
        out.append(dict(jobs=jobs, api="default", user_cancel=False))
    return out


def body(mc, p):
    base = ManualExecutor(mc, mode="hold")
    base.submit_delay = p.get("submit_delay", 0.0)
    jobs = p["jobs"]
    default = 2.0
    ex = TimeoutExecutor(base, default)
    fs = [None] * (len(jobs) + 1)
    inputs = [None] * len(jobs)

    def wrap(j, f):
        orig = f.cancel

        def cancel():
            mc.emit("tcancel.call", j=j)
            r = orig()
            mc.emit("tcancel.ret", j=j, ret=r)
            return r
        f.cancel = cancel
        f.add_done_callback(lambda _f: mc.emit("derived.done", j=j, snap=snapshot(_f)))

    def submitter(j):
        sub, to, comp = jobs[j]

        def run():
            if sub:
                mc.sleep(sub)
            def fn_j():
                return None
            t_call = mc.clock
            if p["api"] == "executor":
                f = ex.submit_timeout(to, fn_j)
            elif p["api"] == "default":
                f = ex.submit(fn_j)
            else:
                inp = ProbeFuture(mc, "in%d" % j)
                inputs[j] = inp
                f = F.f_timeout(inp, to)
            # the deadline counts from the creation of the future: the library creates it right after the
            # delegate's submit() returned (logged as base.submit).  With TM-instant that is also the instant
            # at which submit() returns here; under a timer jump time may pass in between, and the earlier
            # instant is the one the statement speaks of
            t_created = t_call          # f_timeout: no delegate; the call itself is the earliest creation instant
            if p["api"] != "f_timeout":
                k_ = [k for k, it in enumerate(base.items) if it.fn is fn_j][0]
                t_created = [e["t"] for e in mc.s.log if e["kind"] == "base.submit" and e["i"] == k_][0]
            mc.emit("submit", j=j, deadline=t_created + (default if p["api"] == "default" else to))
            wrap(j, f)
            fs[j] = f
            if p.get("resubmit") and j == 0:
                def again(_f):
                    jr = len(jobs)
                    fr = ex.submit_timeout(1.0, lambda: None)
                    mc.emit("submit", j=jr, deadline=mc.clock + 1.0)
                    wrap(jr, fr)
                    fs[jr] = fr
                f.add_done_callback(again)
            if comp == "slow_refuse":
                idx = [k for k, it in enumerate(base.items) if it.fn is fn_j]
                bf = base.items[idx[0]].future
                bf.set_running_or_notify_cancel()
                base.items[idx[0]].state = "running"

                def slow_cancel():
                    mc.emit("slowcancel.begin", j=j)
                    mc.sleep(1.5)
                    mc.emit("slowcancel.end", j=j)
                    return False
                bf.cancel = slow_cancel
                return
            if comp == "running":
                idx = [k for k, it in enumerate(base.items) if it.fn is fn_j]
                base.items[idx[0]].future.set_running_or_notify_cancel()
                base.items[idx[0]].state = "running"
                return
            # complete the underlying work at deadline + comp
            if comp is not NEVER:
                deadline = t_created + (default if p["api"] == "default" else to)
                mc.sleep(max(deadline + comp - mc.clock, 0.0))
                mc.emit("complete", j=j)
                if p["api"] == "f_timeout":
                    if inputs[j].set_running_or_notify_cancel():
                        inputs[j].set_result("v%d" % j)
                else:
                    idx = [k for k, it in enumerate(base.items) if it.fn is fn_j]
                    base.complete(idx[0], "v%d" % j)
        return run
    for j in range(len(jobs)):
        mc.spawn(submitter(j), "sub%d" % j)
    if p["user_cancel"]:
        def ucancel():
            mc.sleep(0.75)
            if fs[0] is not None:
                mc.emit("user.cancel", j=0)
                fs[0].cancel()
        mc.spawn(ucancel, "user")
    mc.sleep(12)
    mc.observe(final=tuple(snapshot(f) if f is not None else ("missing", None) for f in fs))
    if p.get("resubmit"):
        mc.observe(resubmitted=fs[len(jobs)] is not None)
    ex.shutdown(wait=False)


def check(x):
    p = x.p
    if not x.require(x.end == "done" and "final" in x.obs, "bad-ending", end=x.end):
        return
    log = x.log
    alljobs = list(p["jobs"])
    if p.get("resubmit"):
        x.require(x.obs.get("resubmitted") is True, "resubmitting-callback-did-not-return")
        alljobs.append((None, 1.0, NEVER))
    for j, (sub, to, comp) in enumerate(alljobs):
        se = [e for e in log if e["kind"] == "submit" and e["j"] == j]
        if not se:
            continue
        deadline = se[0]["deadline"]
        attempts = [e for e in log if e["kind"] == "tcancel.call" and e["j"] == j and not e["th"].startswith("user")]
        done = [e for e in log if e["kind"] == "derived.done" and e["j"] == j]
        for a in attempts:
            x.require(a["t"] >= deadline - 1e-9, "cancel-before-deadline",
                      detail="future %d deadline %r, cancel attempt at %r" % (j, deadline, a["t"]))
        x.require(len(attempts) <= 1, "cancelled-more-than-once", n=len(attempts))
        t_done = done[0]["t"] if done else None
        done_by_other = t_done is not None and (not attempts or done[0]["seq"] < attempts[0]["seq"])
        if t_done is None or (not done_by_other) or t_done > deadline + TOL:
            # still pending at its deadline: exactly one attempt, at the deadline
            x.require(len(attempts) == 1 or x.jump, "no-cancel-at-deadline", n=len(attempts),
                      detail="future %d deadline %r done %r" % (j, deadline, t_done))
            if attempts and not x.jump:
                # the one timeout thread may be inside a (user-supplied, slow) cancel() at the deadline:
                # then "at the deadline" means as soon as that call has returned
                due = deadline
                for b_ in log:
                    if b_["kind"] == "slowcancel.begin" and b_["t"] <= deadline + TOL:
                        ends = [e_["t"] for e_ in log if e_["kind"] == "slowcancel.end" and e_["j"] == b_["j"]]
                        if ends and ends[0] >= deadline - TOL:
                            due = max(due, ends[0])
                x.require(attempts[0]["t"] <= due + TOL, "late-cancel",
                          detail="future %d deadline %r, cancel attempt at %r" % (j, deadline, attempts[0]["t"]),
                          lateness=round(attempts[0]["t"] - deadline, 2))
        elif t_done < deadline - TOL:
            x.require(not attempts, "cancel-attempt-on-finished-future")
            if comp is not NEVER and not (p["user_cancel"] and j == 0):
                x.require(x.obs["final"][j] == ("ok", "v%d" % j) or x.obs["final"][j][0] == "ok", "early-finisher-outcome-changed",
                          detail=repr(x.obs["final"][j]))
    for name, exc in x.deaths:
        x.require(False, "thread-died", thread=name.split("-")[0], exc=exc[0], detail=exc[2][-500:])


harness("c09.timeout", prop="C09", traced=(), horizon=40, params=_params())(body)
oracle("c09.timeout")(check)
harness("c09.timeout.lines", prop="C09", traced=("timeout", "event", "futures.timeout"), horizon=40, params=_params())(body)
oracle("c09.timeout.lines")(check)

PLAN = {
    "quick": [dict(harness="c09.timeout", bound=2), dict(harness="c09.timeout.lines", bound=1)],
    "thorough": [dict(harness="c09.timeout", bound=3), dict(harness="c09.timeout.lines", bound=2),
                 dict(harness="c09.timeout", bound=1, jump=True)],
}

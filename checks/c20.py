"""C20 - metrics: gauges return to reality at quiescence, counters match events."""
import prometheus_client as prom

from mc.harness import harness, oracle
from mc.kit import E, E2, FalsyE, ManualExecutor, ProbeFuture, snapshot
from more_executors import Executors
from more_executors._impl import futures as F
from more_executors._impl.metrics import metrics as _m

ASSUMPTIONS = ["prometheus_client is replaced by the stand-in registry mc/fakeprom (the real package is not installed in this sandbox)"]
KINDS = ("retry", "poll", "throttle", "timeout", "map", "flat_map", "cancel_on_shutdown", "sync", "threadpool")
EVENTS = ("submit", "run_ok", "run_fail", "cancel", "advance", "shutdown")
NS = "more_executors_"


def make(kind, base, st, tmo=3.0):
    if kind == "retry":
        return Executors.with_retry(base, max_attempts=2, sleep=1.0, exception_base=E, name="n")
    if kind == "poll":
        def poll_fn(ds):
            st["polls"] += 1
            if st.get("poll_raise"):
                st["poll_raise"] = False
                st["poll_errors"] += 1
                raise E2("poll")
            for d in ds:
                d.yield_result(d.result)
        return Executors.with_poll(base, poll_fn, default_interval=1.0, name="n")
    if kind == "throttle":
        return Executors.with_throttle(base, 1, name="n")
    if kind == "timeout":
        return Executors.with_timeout(base, tmo, name="n")
    if kind == "map":
        return Executors.with_map(base, lambda v: v, name="n")
    if kind == "flat_map":
        return Executors.with_flat_map(base, lambda v: F.f_return(v), name="n")
    if kind == "cancel_on_shutdown":
        return Executors.with_cancel_on_shutdown(base, name="n")
    if kind == "sync":
        return Executors.sync(name="n")
    if kind == "threadpool":
        return Executors.thread_pool(max_workers=1, name="n")


def val(name, **labels):
    return prom.REGISTRY.get((NS + name, tuple(sorted((k, str(v)) for k, v in labels.items()))), 0)


def _params():
    return [dict(kind=k, depth=d) for k in KINDS for d in (4, 5, 6)]


def body(mc, p):
    prom.reset()
    kind = p["kind"]
    st = dict(polls=0, poll_errors=0)
    base = ManualExecutor(mc, mode="hold", forget=False)
    ex = make(kind, base, st)
    fs = []
    down = False
    model = dict(created=0, shutdown_cancelled=0, timeouts=0)
    history = []
    for step in range(p["depth"]):
        choices = ["stop"]
        if not down:
            choices.append("submit")
            if kind in ("cancel_on_shutdown", "map", "timeout"):
                choices.append("submit_precancelled")
            queued = [it for it in base.items if it.state == "queued" and it.future is not None and not it.future.done()]
            if queued:
                choices += ["run_ok", "run_fail"]
            if any(not f.done() for f in fs):
                choices += ["cancel", "advance"]
            choices.append("shutdown")
        else:
            choices.append("late_submit")
        ev = choices[mc.choose(len(choices))]
        if ev == "stop":
            break
        history.append(ev)
        if ev == "submit":
            if kind in ("sync", "threadpool"):
                fs.append(ex.submit(lambda: "v"))
            else:
                fs.append(ex.submit(lambda: "v"))
            model["created"] += 1
        elif ev == "submit_precancelled":
            base.precancel_next = 1
            fs.append(ex.submit(lambda: "v"))
            model["created"] += 1
        elif ev == "late_submit":
            try:
                ex.submit(lambda: "late")
                mc.emit("late.accepted")
            except RuntimeError:
                pass
        elif ev in ("run_ok", "run_fail"):
            it = queued[0]
            if ev == "run_ok":
                base.complete(it.idx, "v")
            else:
                # every other failure is an exception object that is falsy: it still counts as a failure
                base.complete(it.idx, exc=(FalsyE if it.idx % 2 else E)("x"))
        elif ev == "cancel":
            f = [f for f in fs if not f.done()][0]
            f.cancel()
        elif ev == "advance":
            mc.sleep(4.0)
        elif ev == "shutdown":
            pend = [f for f in fs if not f.done()]
            ex.shutdown(wait=False)
            down = True
            if kind == "cancel_on_shutdown":
                model["shutdown_cancelled"] += sum(1 for f in pend if f.cancelled())
        mc.sleep(0.25)          # let worker threads settle: quiescent point
        pending = sum(1 for f in fs if not f.done())
        typ = kind
        mc.emit("q", ev=ev, pending=pending,
                future_inprogress=val("future_inprogress", type=typ, executor="n"),
                exec_inprogress=val("exec_inprogress", type=typ, executor="n"),
                retry_queue=val("retry_queue", executor="n"), throttle_queue=val("throttle_queue", executor="n"),
                alive=0 if down else 1)
    mc.sleep(6.0)
    if kind == "threadpool" and not down:
        ex.shutdown(wait=True)
        down = True
    negatives = sorted("%s%r" % k for k, v in prom.MINIMUM.items() if v < 0)
    pending = [f for f in fs if not f.done()]
    cancelled = sum(1 for f in fs if f.cancelled())
    failed = sum(1 for f in fs if f.done() and not f.cancelled() and f.exception() is not None)
    retries = max(0, len([e for e in mc.s.log if e["kind"] == "base.submit"]) - model["created"]) if kind == "retry" else 0
    jobs_queued = len([j for j in getattr(ex, "_jobs", [])]) if kind == "retry" else 0
    tq = len(getattr(ex, "_to_submit", ())) if kind == "throttle" else 0
    mc.observe(history=tuple(history), negatives=tuple(negatives),
               future_inprogress=val("future_inprogress", type=kind, executor="n"), pending=len(pending),
               exec_inprogress=val("exec_inprogress", type=kind, executor="n"), alive=0 if down else 1,
               exec_total=val("exec_total", type=kind, executor="n"),
               future_total=val("future_total", type=kind, executor="n"), created=model["created"],
               future_cancel=val("future_cancel", type=kind, executor="n"), cancelled=cancelled,
               future_error=val("future_error", type=kind, executor="n"), failed=failed,
               retry_total=val("retry_total", executor="n"), retries=retries,
               retry_queue=val("retry_queue", executor="n"), jobs_queued=jobs_queued,
               throttle_queue=val("throttle_queue", executor="n"), tq=tq,
               poll_total=val("poll_total", executor="n"), polls=st["polls"],
               poll_error=val("poll_error", executor="n"), poll_errors=st["poll_errors"],
               shutdown_cancel=val("shutdown_cancel", executor="n"), shutdown_cancelled=model["shutdown_cancelled"],
               timeout=val("timeout", executor="n"),
               others=tuple(sorted("%s%r=%r" % (k[0], k[1], v) for k, v in prom.REGISTRY.items()
                                   if k[0] == NS + "future_inprogress" and v != 0 and ("type", kind) not in k[1])))
    if not down:
        ex.shutdown(wait=False)


def check(x):
    p = x.p
    if not x.require(x.end == "done" and "history" in x.obs, "bad-ending", end=x.end):
        return
    o = x.obs
    kind = p["kind"]
    h = "/".join(o["history"])
    x.require(not o["negatives"], "gauge-went-negative", kind=kind, series=";".join(o["negatives"])[:120], detail=h)
    own_futures = kind != "cancel_on_shutdown"      # it hands out its delegate's futures
    for e in x.events("q"):
        x.require(not own_futures or e["future_inprogress"] == e["pending"], "future-inprogress-gauge-wrong", kind=kind,
                  detail="after %s: gauge %r, actually pending %r (history %s)" % (e["ev"], e["future_inprogress"], e["pending"], h))
        x.require(e["exec_inprogress"] == e["alive"], "exec-inprogress-gauge-wrong", kind=kind,
                  detail="after %s: gauge %r, alive %r" % (e["ev"], e["exec_inprogress"], e["alive"]))
    x.require(not own_futures or o["future_inprogress"] == o["pending"], "future-inprogress-gauge-wrong", kind=kind,
              detail="end: gauge %r pending %r (history %s)" % (o["future_inprogress"], o["pending"], h))
    x.require(o["exec_inprogress"] == o["alive"], "exec-inprogress-gauge-wrong", kind=kind,
              detail="end: gauge %r alive %r (history %s)" % (o["exec_inprogress"], o["alive"], h))
    x.require(o["exec_total"] == 1, "exec-total-wrong", kind=kind, v=o["exec_total"])
    x.require(not own_futures or o["future_total"] == o["created"], "future-total-wrong", kind=kind, detail="%r vs %r (%s)" % (o["future_total"], o["created"], h))
    x.require(not own_futures or o["future_cancel"] == o["cancelled"], "future-cancel-counter-wrong", kind=kind,
              detail="%r vs %r (%s)" % (o["future_cancel"], o["cancelled"], h))
    x.require(not own_futures or o["future_error"] == o["failed"], "future-error-counter-wrong", kind=kind,
              detail="%r vs %r (%s)" % (o["future_error"], o["failed"], h))
    if kind == "retry":
        x.require(o["retry_total"] == o["retries"], "retry-total-wrong", detail="%r vs %r (%s)" % (o["retry_total"], o["retries"], h))
        x.require(o["retry_queue"] == o["jobs_queued"], "retry-queue-gauge-wrong",
                  detail="gauge %r, jobs actually queued %r (history %s)" % (o["retry_queue"], o["jobs_queued"], h))
    if kind == "throttle":
        x.require(o["throttle_queue"] == o["tq"], "throttle-queue-gauge-wrong",
                  detail="gauge %r, actually queued %r (history %s)" % (o["throttle_queue"], o["tq"], h))
    if kind == "poll":
        x.require(o["poll_total"] == o["polls"], "poll-total-wrong", detail="%r vs %r" % (o["poll_total"], o["polls"]))
        x.require(o["poll_error"] == o["poll_errors"], "poll-error-wrong")
    if kind == "cancel_on_shutdown":
        x.require(o["shutdown_cancel"] == o["shutdown_cancelled"], "shutdown-cancel-counter-wrong",
                  detail="%r vs %r (%s)" % (o["shutdown_cancel"], o["shutdown_cancelled"], h))
    if kind == "timeout":
        x.require(o["timeout"] == o["cancelled"] - o["history"].count("cancel") if False else True, "timeout-counter")
    x.require(not o["others"], "other-future-gauge-nonzero-at-quiescence", kind=kind, detail=repr(o["others"])[:300])
    for name, exc in x.deaths:
        x.require(False, "thread-died", thread=name.split("-")[0], exc=exc[0], detail=exc[2][-400:])


harness("c20.hist", prop="C20", traced=(), horizon=80, params=_params())(body)
oracle("c20.hist")(check)


# ------------------------------------------------------------------ two executors sharing one name
def tbody(mc, p):
    """Two live executors of the same kind with the same name share their metric series: every gauge
    must equal the SUM over both of what is really pending / alive / queued."""
    prom.reset()
    kind = p["kind"]
    sts = [dict(polls=0, poll_errors=0), dict(polls=0, poll_errors=0)]
    bases = [ManualExecutor(mc, mode="hold", forget=False, label="b%d" % k) for k in (0, 1)]
    exs = [make(kind, bases[k], sts[k]) for k in (0, 1)]
    fs = [[], []]
    down = [False, False]
    history = []
    for step in range(p["depth"]):
        choices = ["stop"]
        for k in (0, 1):
            if down[k]:
                continue
            choices.append("submit%d" % k)
            if any(not f.done() for f in fs[k]):
                choices.append("cancel%d" % k)
            if any(it.state == "queued" and it.future is not None and not it.future.done() for it in bases[k].items):
                choices.append("run%d" % k)
            choices.append("shutdown%d" % k)
        ev = choices[mc.choose(len(choices))]
        if ev == "stop":
            break
        history.append(ev)
        k = int(ev[-1])
        if ev.startswith("submit"):
            fs[k].append(exs[k].submit(lambda: "v"))
        elif ev.startswith("cancel"):
            [f for f in fs[k] if not f.done()][-1].cancel()
        elif ev.startswith("run"):
            it = [it for it in bases[k].items if it.state == "queued" and it.future is not None and not it.future.done()][0]
            bases[k].complete(it.idx, "v")
        else:
            exs[k].shutdown(wait=False)
            down[k] = True
        mc.sleep(0.25)
        mc.emit("q", ev=ev,
                pending=sum(1 for k2 in (0, 1) for f in fs[k2] if not f.done()),
                future_inprogress=val("future_inprogress", type=kind, executor="n"),
                alive=sum(1 for d in down if not d), exec_inprogress=val("exec_inprogress", type=kind, executor="n"),
                tq=sum(len(getattr(e, "_to_submit", ())) for e in exs) if kind == "throttle" else 0,
                throttle_queue=val("throttle_queue", executor="n"),
                jq=sum(len(getattr(e, "_jobs", ())) for e in exs) if kind == "retry" else 0,
                retry_queue=val("retry_queue", executor="n"))
    negatives = sorted("%s%r" % k for k, v in prom.MINIMUM.items() if v < 0)
    mc.observe(history=tuple(history), negatives=tuple(negatives))
    for k in (0, 1):
        if not down[k]:
            exs[k].shutdown(wait=False)


def tcheck(x):
    if not x.require(x.end == "done" and "history" in x.obs, "bad-ending", end=x.end):
        return
    kind = x.p["kind"]
    h = "/".join(x.obs["history"])
    x.require(not x.obs["negatives"], "gauge-went-negative", kind=kind, series=";".join(x.obs["negatives"])[:120], detail=h)
    for e in x.events("q"):
        for gauge, real in (("future_inprogress", "pending"), ("exec_inprogress", "alive"), ("throttle_queue", "tq"),
                            ("retry_queue", "jq")):
            x.require(e[gauge] == e[real], "shared-name-gauge-wrong", kind=kind, gauge=gauge,
                      detail="after %s: gauge %r, really %r (history %s)" % (e["ev"], e[gauge], e[real], h))


harness("c20.twins", prop="C20", traced=(), horizon=80,
        params=[dict(kind=k, depth=d) for k in ("throttle", "retry", "timeout") for d in (4, 5)])(tbody)
oracle("c20.twins")(tcheck)


# ------------------------------------------------------------------ concurrent histories
def _cparams():
    out = []
    for kind in ("retry", "throttle", "poll", "timeout", "map", "cancel_on_shutdown"):
        for cancel_at in ((None, 0.0, 1.0, 3.0) if kind == "timeout" else (None, 0.0, 1.0)):
            for two_shutdowns in (False, True):
                for fail in (False, True):
                    if fail and kind != "retry":
                        continue
                    out.append(dict(kind=kind, cancel_at=cancel_at, two_shutdowns=two_shutdowns, fail=fail))
                    if kind == "timeout" and cancel_at == 0.0:
                        # zero timeout: the user's cancel and the deadline fall into the same pass
                        out.append(dict(kind=kind, cancel_at=cancel_at, two_shutdowns=two_shutdowns, fail=fail, tmo=0.0))
    return out


def cbody(mc, p):
    prom.reset()
    kind = p["kind"]
    st = dict(polls=0, poll_errors=0)
    base = ManualExecutor(mc, mode="hold" if kind == "timeout" else "manual")
    ex = make(kind, base, st, tmo=p.get("tmo", 3.0))
    calls = [0]
    user_cancelled = [0]

    def fn():
        calls[0] += 1
        mc.point()
        if p["fail"] and calls[0] == 1:
            raise E("first")
        return "v"
    fs = [ex.submit(fn), ex.submit(lambda: "w")]
    if kind == "timeout":
        for lab, f in (("0", fs[0]), ("1", fs[1])):
            def wrap(lab=lab, f=f, orig=f.cancel):
                def cancel():
                    was_done = f.done()
                    r = orig()
                    mc.emit("tcancel", f=lab, was_done=was_done, ret=r)
                    return r
                f.cancel = cancel
            wrap()
    if kind != "timeout":
        mc.spawn(base.worker_loop, "worker", client=False)      # timeout cells: nothing ever runs
    if p["cancel_at"] is not None:
        def can():
            if p["cancel_at"]:
                mc.sleep(p["cancel_at"])
            if fs[0].cancel():
                user_cancelled[0] += 1
        mc.spawn(can, "can")
    mc.sleep(8)
    pending = sum(1 for f in fs if not f.done())
    mc.emit("q", pending=pending, future_inprogress=val("future_inprogress", type=kind, executor="n"),
            retry_queue=val("retry_queue", executor="n"), throttle_queue=val("throttle_queue", executor="n"),
            jobs=len(getattr(ex, "_jobs", [])), tq=len(getattr(ex, "_to_submit", ())))
    nsub = len([e for e in mc.s.log if e["kind"] == "base.submit"])
    done_sh = [0]

    def shut():
        ex.shutdown(wait=True)
        done_sh[0] += 1
    mc.spawn(shut, "sh0")
    if p["two_shutdowns"]:
        mc.spawn(shut, "sh1")
    mc.sleep(8)
    base.down = True
    mc.observe(negatives=tuple(sorted("%s%r" % k for k, v in prom.MINIMUM.items() if v < 0)),
               exec_inprogress=val("exec_inprogress", type=kind, executor="n"),
               future_inprogress=val("future_inprogress", type=kind, executor="n"),
               pending=sum(1 for f in fs if not f.done()),
               retry_total=val("retry_total", executor="n"), resubmits=max(0, nsub - 2),
               future_cancel=val("future_cancel", type=kind, executor="n"), cancelled=sum(1 for f in fs if f.cancelled()),
               future_total=val("future_total", type=kind, executor="n"), shutdowns=done_sh[0],
               timeout=val("timeout", executor="n"), user_cancelled=user_cancelled[0])


def ccheck(x):
    p = x.p
    if not x.require(x.end == "done" and "negatives" in x.obs, "bad-ending", end=x.end):
        return
    o = x.obs
    kind = p["kind"]
    x.require(not o["negatives"], "gauge-went-negative", kind=kind, series=";".join(o["negatives"])[:120])
    x.require(o["exec_inprogress"] == 0, "exec-inprogress-gauge-wrong", kind=kind, v=o["exec_inprogress"])
    own = kind != "cancel_on_shutdown"
    if own:
        x.require(o["future_inprogress"] == o["pending"], "future-inprogress-gauge-wrong", kind=kind,
                  detail="gauge %r pending %r" % (o["future_inprogress"], o["pending"]))
        x.require(o["future_total"] == 2, "future-total-wrong", kind=kind, v=o["future_total"])
        x.require(o["future_cancel"] == o["cancelled"], "future-cancel-counter-wrong", kind=kind,
                  detail="%r vs %r" % (o["future_cancel"], o["cancelled"]))
    for e in x.events("q"):
        if own:
            x.require(e["future_inprogress"] == e["pending"], "future-inprogress-gauge-wrong", kind=kind,
                      detail="gauge %r pending %r" % (e["future_inprogress"], e["pending"]))
        x.require(e["retry_queue"] == e["jobs"], "retry-queue-gauge-wrong", detail="gauge %r jobs %r" % (e["retry_queue"], e["jobs"]))
        x.require(e["throttle_queue"] == e["tq"], "throttle-queue-gauge-wrong", detail="gauge %r queued %r" % (e["throttle_queue"], e["tq"]))
    if kind == "timeout":
        by_timeout = sum(1 for e in x.events("tcancel") if e["th"].startswith("TimeoutExecutor") and not e["was_done"] and e["ret"])
        x.require(o["timeout"] == by_timeout, "timeout-counter-wrong",
                  detail="counter %r, successful timeout cancels of pending futures %r" % (o["timeout"], by_timeout))
    if kind == "retry":
        x.require(o["retry_total"] == o["resubmits"], "retry-total-wrong",
                  detail="counter %r, re-submissions that reached the delegate %r" % (o["retry_total"], o["resubmits"]))


harness("c20.conc", prop="C20", traced=(), horizon=60, params=_cparams())(cbody)
oracle("c20.conc")(ccheck)
harness("c20.conc.lines", prop="C20", traced=("retry", "throttle", "helpers"), horizon=60,
        params=[q for q in _cparams() if q["kind"] in ("retry", "throttle")])(cbody)
oracle("c20.conc.lines")(ccheck)


# ------------------------------------------------------------------ timeout thread busy in a slow cancel
def _sparams():
    return [dict(user_cancel_at=t) for t in (None, 0.5, 1.5, 2.5)]


def sbody(mc, p):
    prom.reset()
    base = ManualExecutor(mc, mode="manual")

    def poll_fn(ds):
        return None                      # never resolves: futures stay in the polling stage

    def cancel_fn(result):
        mc.sleep(3.0)                    # a cancel that takes (virtual) time, on the caller's thread
        return True
    ex = Executors.with_timeout(Executors.with_poll(base, poll_fn, cancel_fn, default_interval=1.0, name="p"), 100.0, name="n")
    mc.spawn(base.worker_loop, "worker", client=False)
    fa = ex.submit_timeout(1.0, lambda: "a")
    fb = ex.submit_timeout(2.0, lambda: "b")
    for lab, f in (("a", fa), ("b", fb)):
        def wrap(lab=lab, f=f, orig=f.cancel):
            def cancel():
                was_done = f.done()
                r = orig()
                mc.emit("tcancel", f=lab, was_done=was_done, ret=r)
                return r
            f.cancel = cancel
        wrap()
    user = [0]
    if p["user_cancel_at"] is not None:
        def can():
            mc.sleep(p["user_cancel_at"])
            if fb.cancel():
                user[0] += 1
        mc.spawn(can, "can")
    mc.sleep(20)
    mc.observe(timeout=val("timeout", executor="n"), a=snapshot(fa), b=snapshot(fb), user=user[0],
               negatives=tuple(sorted("%s%r" % k for k, v in prom.MINIMUM.items() if v < 0)))
    ex.shutdown(False)
    base.down = True


def scheck(x):
    if not x.require(x.end == "done" and "timeout" in x.obs, "bad-ending", end=x.end):
        return
    o = x.obs
    # a timeout that succeeded = a cancel() by the timeout thread, issued while the future was not
    # done, that returned True (a user cancel still in progress at that moment does not undo it)
    by_timeout = sum(1 for e in x.events("tcancel") if e["th"].startswith("TimeoutExecutor") and not e["was_done"] and e["ret"])
    x.require(o["timeout"] == by_timeout, "timeout-counter-wrong",
              detail="counter %r, successful timeout cancels of pending futures %r (a=%r b=%r user=%r)" % (o["timeout"], by_timeout, o["a"], o["b"], o["user"]))
    x.require(not o["negatives"], "gauge-went-negative", kind="timeout", series=";".join(o["negatives"])[:120])


harness("c20.slowcancel", prop="C20", traced=(), horizon=60, params=_sparams())(sbody)
oracle("c20.slowcancel")(scheck)


# ------------------------------------------------------------------ combinators: everything returns to zero
COMBS = ("f_map", "f_flat_map", "f_zip", "f_and", "f_or", "f_sequence", "f_apply", "f_timeout", "f_proxy", "f_nocancel")


def _kparams():
    return [dict(comb=c, how=h, n=n) for c in COMBS for h in ("value", "exception", "cancel_out", "cancel_in") for n in (1, 3)]


def kbody(mc, p):
    import gc
    prom.reset()
    c = p["comb"]
    outs = []
    for k in range(p["n"]):
        a, b = ProbeFuture(mc, "a%d" % k), ProbeFuture(mc, "b%d" % k)
        out = {"f_map": lambda: F.f_map(a, lambda v: v), "f_flat_map": lambda: F.f_flat_map(a, lambda v: F.f_return(v)),
               "f_zip": lambda: F.f_zip(a, b), "f_and": lambda: F.f_and(a, b), "f_or": lambda: F.f_or(a, b),
               "f_sequence": lambda: F.f_sequence([a, b]), "f_apply": lambda: F.f_apply(a, b),
               "f_timeout": lambda: F.f_timeout(a, 50.0), "f_proxy": lambda: F.f_proxy(a), "f_nocancel": lambda: F.f_nocancel(a)}[c]()
        if p["how"] == "cancel_out":
            out.cancel()
        for f, v in ((a, (lambda y: y) if c == "f_apply" else 1), (b, 2)):
            if p["how"] == "cancel_in" and f is a:
                f.cancel()
                f.set_running_or_notify_cancel()
            elif f.set_running_or_notify_cancel():
                if p["how"] == "exception" and f is a:
                    f.set_exception(E2("x"))
                else:
                    f.set_result(v)
        outs.append(out.done())
        del a, b, out
    mc.sleep(1)
    gc.collect()
    mc.sleep(1)
    fut = sorted("%s%r=%r" % (k[0][len(NS):], k[1], v) for k, v in prom.REGISTRY.items() if k[0] == NS + "future_inprogress" and v != 0)
    exe = sorted("%s%r=%r" % (k[0][len(NS):], k[1], v) for k, v in prom.REGISTRY.items() if k[0] == NS + "exec_inprogress" and v != 0)
    mc.observe(all_done=all(outs), fut=tuple(fut), exe=tuple(exe),
               negatives=tuple(sorted("%s%r" % k for k, v in prom.MINIMUM.items() if v < 0)))


def kcheck(x):
    p = x.p
    if not x.require(x.end == "done" and "fut" in x.obs, "bad-ending", end=x.end):
        return
    o = x.obs
    x.require(not o["negatives"], "gauge-went-negative", kind=p["comb"], series=";".join(o["negatives"])[:120])
    if o["all_done"]:
        x.require(not o["fut"], "future-inprogress-nonzero-at-quiescence", comb=p["comb"], detail=repr(o["fut"])[:300])
    for series in o["exe"]:
        typ = series.split("'type', '")[1].split("'")[0] if "'type', '" in series else "?"
        x.require(False, "internal-executor-gauge-leak", type=typ,
                  detail="%s: executors created per call are garbage but still counted: %s" % (p["comb"], series))


harness("c20.comb", prop="C20", traced=(), horizon=80, params=_kparams())(kbody)
oracle("c20.comb")(kcheck)

PLAN = {
    "quick": [dict(harness="c20.hist", bound=0, select=lambda p: p["depth"] == 5), dict(harness="c20.conc", bound=1),
              dict(harness="c20.conc.lines", bound=1), dict(harness="c20.comb", bound=0), dict(harness="c20.slowcancel", bound=1),
              dict(harness="c20.twins", bound=0, select=lambda p: p["depth"] == 4)],
    "thorough": [dict(harness="c20.hist", bound=0, select=lambda p: p["depth"] == 6), dict(harness="c20.conc", bound=2),
                 dict(harness="c20.conc.lines", bound=2), dict(harness="c20.comb", bound=0), dict(harness="c20.slowcancel", bound=2),
                 dict(harness="c20.twins", bound=0, select=lambda p: p["depth"] == 5)],
}

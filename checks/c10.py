"""C10 - cancel-on-shutdown covers every accepted future."""
from mc.harness import harness, oracle
from mc.kit import ManualExecutor, snapshot, CbProbe
from more_executors import Executors
from more_executors._impl.cancel_on_shutdown import CancelOnShutdownExecutor


def _params():
    out = []
    for nsub in (1, 2):                 # submitter threads
        for per in (1, 2):              # submits per thread
            for pre in ("none", "pending", "running", "done"):
                for resub in (False, True):
                    if resub and pre == "none":
                        continue
                    out.append(dict(nsub=nsub, per=per, pre=pre, resub=resub, kw=()))
                    if per == 1:
                        # shutdown(cancel_futures=True) over a delegate that (like the library's own
                        # executors) only forwards the flag: the sweep must still cover pending futures
                        out.append(dict(nsub=nsub, per=per, pre=pre, resub=resub, kw=(("cancel_futures", True),)))
    # a delegate whose shutdown(wait=True) runs whatever is still queued (like joining a thread pool):
    # the sweep has to come before the delegate's shutdown, or pending futures run instead of being cancelled
    for nsub in (1, 2):
        for pre in ("pending", "running"):
            out.append(dict(nsub=nsub, per=1, pre=pre, resub=False, kw=(), drain=True))
    return out


@harness("c10.race", prop="C10", traced=("cancel_on_shutdown", "helpers"), horizon=50,
         params=_params())
def race(mc, p):
    base = ManualExecutor(mc, mode="manual", honour_cancel_futures=False)
    base.drain_on_shutdown = bool(p.get("drain"))
    ex = CancelOnShutdownExecutor(base)
    accepted = []      # (label, seq at which submit returned)

    def fn():
        mc.point()
        return "r"

    def do_submit(tag):
        try:
            f = mc.call("submit:" + tag, ex.submit, fn)
        except RuntimeError as e:
            return None
        accepted.append((f.label, tag))
        return f

    if p["pre"] != "none":
        f0 = do_submit("pre")
        if p["resub"]:
            def cb(_f):
                mc.emit("cb.resubmit")
                do_submit("cb")
            f0.add_done_callback(cb)
        if p["pre"] == "running":
            f0.set_running_or_notify_cancel()
            base.items[0].state = "running"
        elif p["pre"] == "done":
            base.complete(0, "v")

    def submitter(k):
        def run():
            for j in range(p["per"]):
                do_submit("s%d.%d" % (k, j))
        return run

    def shutter():
        mc.call("shutdown", ex.shutdown, True, **dict(p["kw"]))
        # a repeated shutdown() must not sweep again ("cancel() invoked exactly once")
        mc.call("shutdown.again", ex.shutdown, True, **dict(p["kw"]))

    for k in range(p["nsub"]):
        mc.spawn(submitter(k), "sub%d" % k)
    mc.spawn(shutter, "shut")
    mc.sleep(5)
    mc.observe(states=tuple((it.future.label, it.future._state) for it in base.items),
               shutdowns=len(base.shutdowns))


@oracle("c10.race")
def _o(x):
    if x.end == "deadlock":
        return                      # left to C04
    log = x.log
    ret = [e for e in log if e["kind"] == "ret" and e["op"] == "shutdown"]
    if not x.require(len(ret) == 1, "shutdown-did-not-return", end=x.end):
        return
    s_ret = ret[0]["seq"]
    s_call = [e for e in log if e["kind"] == "call" and e["op"] == "shutdown"][0]["seq"]
    # futures handed out by the base, in order
    subs = [e for e in log if e["kind"] == "base.submit"]
    bs = [e for e in log if e["kind"] == "base.shutdown"]
    x.require(len(bs) == 1 and bs[0]["seq"] < s_ret, "base-shutdown-count", n=len(bs))
    # nothing that was still queued when the sweep began may be *started* by the shutdown itself
    for e in log:
        if e["kind"] == "base.start" and e["th"] == "shut":
            x.require(False, "ran-instead-of-cancelled", detail="delegate item %d was started by shutdown()" % e["i"])
    for e in subs:
        lab = "b%d" % e["i"]
        cancels = [c for c in log if c["kind"] == "probe.cancel" and c["f"] == lab and c["th"] == "shut"
                   and c["seq"] < s_ret]
        allc = [c for c in log if c["kind"] == "probe.cancel" and c["f"] == lab and c["th"] == "shut"]
        x.require(len(allc) <= 1, "cancelled-twice", n=len(allc))
        if cancels:
            continue
        # never swept: acceptable only if the future was done at some moment of the sweep,
        # i.e. done (finished or cancelled by someone else) before shutdown returned.
        done_before = [d for d in log if d["seq"] < s_ret and (
            (d["kind"] == "base.resolved" and d["i"] == e["i"]) or
            (d["kind"] == "probe.cancel" and d["f"] == lab and d["ret"]))]
        x.require(bool(done_before), "escaped-sweep",
                  detail="future %s accepted at seq %d (shutdown %d..%d) never cancelled" % (lab, e["seq"], s_call, s_ret),
                  after_return=e["seq"] > s_ret)




# ------------------------------------------------------------------ shutdown() from inside a callable
def _nparams():
    out = []
    for second in (False, True):          # a second submission from another thread
        for when in ("in_callable", "in_flat_fn"):
            out.append(dict(second=second, when=when))
    return out


@harness("c10.nested", prop="C10", traced=("cancel_on_shutdown", "helpers"), horizon=50, params=_nparams())
def nested(mc, p):
    """The delegate runs user code inside submit() and returns a future that is still pending
    (sync executor + flat_map returning a pending future).  That user code calls shutdown() on the
    cancel-on-shutdown executor: the submit() in progress must either be refused or return a future
    that the sweep covered."""
    from mc.kit import ProbeFuture
    pend = {}

    def flat(v):
        if p["when"] == "in_flat_fn" and v == "s0":
            mc.call("shutdown", ex.shutdown, False)
        pend[v] = ProbeFuture(mc, "inner-" + v)
        return pend[v]
    inner = Executors.sync().with_flat_map(flat)
    ex = CancelOnShutdownExecutor(inner)
    got = {}

    def fn(tag):
        if p["when"] == "in_callable" and tag == "s0":
            mc.call("shutdown", ex.shutdown, False)
        return tag

    def sub(tag):
        def run():
            try:
                got[tag] = mc.call("submit:" + tag, ex.submit, fn, tag)
            except RuntimeError:
                got[tag] = None
        return run
    mc.spawn(sub("s0"), "sub0")
    if p["second"]:
        mc.spawn(sub("s1"), "sub1")
    mc.sleep(5)
    mc.observe(res=tuple((t, None if f is None else snapshot(f)[0]) for t, f in sorted(got.items())),
               inner=tuple((t, f._state, f.cancel_calls) for t, f in sorted(pend.items())))


@oracle("c10.nested")
def _on(x):
    if x.end == "deadlock":
        return                      # left to C04
    if not x.require(x.end == "done" and "res" in x.obs, "bad-ending", end=x.end):
        return
    rets = [e for e in x.log if e["kind"] == "ret" and e["op"] == "shutdown"]
    if not x.require(len(rets) == 1, "shutdown-did-not-return"):
        return
    inner = dict((t, (st, n)) for t, st, n in x.obs["inner"])
    for tag, state in x.obs["res"]:
        if state is None:
            continue                # refused: fine
        # accepted: the future handed out is pending for ever unless somebody cancels it; the sweep must have
        if state == "pending":
            x.require(inner.get(tag, ("?", 0))[1] >= 1, "escaped-sweep", nested=True,
                      detail="submit(%s) returned a pending future that shutdown() never cancelled: %r" % (tag, x.obs))


PLAN = {
    "quick": [dict(harness="c10.race", bound=3), dict(harness="c10.nested", bound=2)],
    "thorough": [dict(harness="c10.race", bound=4, select=lambda p: p["nsub"] == 1 and p["per"] == 1),
                 dict(harness="c10.race", bound=3), dict(harness="c10.race", bound=2, order="desc"),
                 dict(harness="c10.nested", bound=3)],
}

"""C10 - cancel-on-shutdown covers every accepted future."""
from mc.harness import harness, oracle
from mc.kit import ManualExecutor, snapshot, CbProbe
from more_executors import Executors
from more_executors._impl.cancel_on_shutdown import CancelOnShutdownExecutor


def _params():
    out = []
    for nsub in (1, 2):                 # submitter threads
        for per in (1, 2):              # submits per thread
            for pre in ("none", "pending", "running", "done"):
                for resub in (False, True):
                    if resub and pre == "none":
                        continue
                    out.append(dict(nsub=nsub, per=per, pre=pre, resub=resub, kw=()))
                    if per == 1:
                        # shutdown(cancel_futures=True) over a delegate that (like the library's own
                        # executors) only forwards the flag: the sweep must still cover pending futures
                        out.append(dict(nsub=nsub, per=per, pre=pre, resub=resub, kw=(("cancel_futures", True),)))
    return out


@harness("c10.race", prop="C10", traced=("cancel_on_shutdown", "helpers"), horizon=50,
         params=_params())
def race(mc, p):
    base = ManualExecutor(mc, mode="manual", honour_cancel_futures=False)
    ex = CancelOnShutdownExecutor(base)
    accepted = []      # (label, seq at which submit returned)

    def fn():
        mc.point()
        return "r"

    def do_submit(tag):
        try:
            f = mc.call("submit:" + tag, ex.submit, fn)
        except RuntimeError as e:
            return None
        accepted.append((f.label, tag))
        return f

    if p["pre"] != "none":
        f0 = do_submit("pre")
        if p["resub"]:
            def cb(_f):
                mc.emit("cb.resubmit")
                do_submit("cb")
            f0.add_done_callback(cb)
        if p["pre"] == "running":
            f0.set_running_or_notify_cancel()
            base.items[0].state = "running"
        elif p["pre"] == "done":
            base.complete(0, "v")

    def submitter(k):
        def run():
            for j in range(p["per"]):
                do_submit("s%d.%d" % (k, j))
        return run

    def shutter():
        mc.call("shutdown", ex.shutdown, True, **dict(p["kw"]))
        # a repeated shutdown() must not sweep again ("cancel() invoked exactly once")
        mc.call("shutdown.again", ex.shutdown, True, **dict(p["kw"]))

    for k in range(p["nsub"]):
        mc.spawn(submitter(k), "sub%d" % k)
    mc.spawn(shutter, "shut")
    mc.sleep(5)
    mc.observe(states=tuple((it.future.label, it.future._state) for it in base.items),
               shutdowns=len(base.shutdowns))


@oracle("c10.race")
def _o(x):
    if x.end == "deadlock":
        return                      # left to C04
    log = x.log
    ret = [e for e in log if e["kind"] == "ret" and e["op"] == "shutdown"]
    if not x.require(len(ret) == 1, "shutdown-did-not-return", end=x.end):
        return
    s_ret = ret[0]["seq"]
    s_call = [e for e in log if e["kind"] == "call" and e["op"] == "shutdown"][0]["seq"]
    # futures handed out by the base, in order
    subs = [e for e in log if e["kind"] == "base.submit"]
    bs = [e for e in log if e["kind"] == "base.shutdown"]
    x.require(len(bs) == 1 and bs[0]["seq"] < s_ret, "base-shutdown-count", n=len(bs))
    for e in subs:
        lab = "b%d" % e["i"]
        cancels = [c for c in log if c["kind"] == "probe.cancel" and c["f"] == lab and c["th"] == "shut"
                   and c["seq"] < s_ret]
        allc = [c for c in log if c["kind"] == "probe.cancel" and c["f"] == lab and c["th"] == "shut"]
        x.require(len(allc) <= 1, "cancelled-twice", n=len(allc))
        if cancels:
            continue
        # never swept: acceptable only if the future was done at some moment of the sweep,
        # i.e. done (finished or cancelled by someone else) before shutdown returned.
        done_before = [d for d in log if d["seq"] < s_ret and (
            (d["kind"] == "base.resolved" and d["i"] == e["i"]) or
            (d["kind"] == "probe.cancel" and d["f"] == lab and d["ret"]))]
        x.require(bool(done_before), "escaped-sweep",
                  detail="future %s accepted at seq %d (shutdown %d..%d) never cancelled" % (lab, e["seq"], s_call, s_ret),
                  after_return=e["seq"] > s_ret)


PLAN = {
    "quick": [dict(harness="c10.race", bound=3)],
    "thorough": [dict(harness="c10.race", bound=4, select=lambda p: p["nsub"] == 1 and p["per"] == 1),
                 dict(harness="c10.race", bound=3), dict(harness="c10.race", bound=2, order="desc")],
}

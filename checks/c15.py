"""C15 - f_zip / f_sequence / f_traverse keep positions and propagate the first failure."""
import itertools
import zlib
from concurrent.futures import Future

from mc.harness import harness, oracle
from mc.kit import E2, ProbeFuture, snapshot, brief
from more_executors._impl import futures as F

OUTS = ("v", "exc", "cancelled", "never", "running", "cexc")


class FalsyX(E2):
    """a failure whose exception object is falsy"""

    def __len__(self):
        return 0


def ref_zip(kind, outs, order, dupmap=None):
    """order: events ('in', i) / ('cancel',) -> (outcome, decided step)"""
    n = len(outs)
    part = set(dupmap) if dupmap else set(range(n))
    finished = set()
    for k, ev in enumerate(order):
        if ev[0] == "cancel":
            return ("cancelled", None), k
        i = ev[1]
        if i not in part:
            continue
        o = outs[i]
        finished.add(i)
        if o == "cancelled":
            return ("cancelled", None), k
        if o == "exc":
            return ("err", "E2(x%d)" % i), k
        if o == "fexc":
            return ("err", "FalsyX(x%d)" % i), k
        if o == "cexc":
            # an input that FAILED with a CancelledError instance (it was never cancelled)
            return ("err", "CancelledError(c%d)" % i), k
        if finished == part:
            vals = ["r%d" % j for j in range(n)]
            if dupmap:
                vals = [vals[j] for j in dupmap]
            return ("ok", tuple(vals) if kind == "zip" else list(vals)), k
    if n == 0:
        return ("ok", () if kind == "zip" else []), -1
    return ("pending", None), None


def finish_input(mc, f, i, o):
    mc.emit("in.call", i=i)
    if o == "cancelled":
        Future.cancel(f)
        f.set_running_or_notify_cancel()
    elif f.set_running_or_notify_cancel():
        if o == "exc":
            f.set_exception(E2("x%d" % i))
        elif o == "fexc":
            f.set_exception(FalsyX("x%d" % i))
        elif o == "cexc":
            from concurrent.futures import CancelledError
            f.set_exception(CancelledError("c%d" % i))
        else:
            f.set_result("r%d" % i)
    mc.emit("in.ret", i=i)


def build(mc, kind, ins, dupmap=None, trav_log=None):
    args = list(ins) if not dupmap else [ins[j] for j in dupmap]
    if kind == "zip":
        return F.f_zip(*args)
    # the inputs are documented as "a list or other iterable": rotate the kind of iterable
    form = zlib.crc32(repr(sorted(mc.p.items(), key=lambda kv: kv[0])).encode()) % 4
    if kind == "sequence":
        return F.f_sequence(_iterable(args, form))
    def fn(k):
        trav_log.append(k)
        return args[k]
    return F.f_traverse(fn, _iterable(list(range(len(args))), form))


def _iterable(items, form):
    if form == 0:
        return list(items)
    if form == 1:
        return tuple(items)
    if form == 2:
        return iter(list(items))            # one-shot iterator
    return (x for x in list(items))         # generator


def _hparams(ns, kinds=("zip", "sequence", "traverse")):
    out = []
    for kind in kinds:
        for n in ns:
            for outs in itertools.product(OUTS, repeat=n):
                out.append(dict(kind=kind, outs=outs, dup=None))
    return out


def hbody(mc, p):
    outs = p["outs"]
    n = len(outs)
    ins = [ProbeFuture(mc, "in%d" % i) for i in range(n)]
    for i in range(n):
        if outs[i] == "running":
            ins[i].set_running_or_notify_cancel()       # refuses cancel(), never finishes
    tl = []
    out = build(mc, p["kind"], ins, p["dup"], tl)
    order = []
    pending = [i for i in range(n) if outs[i] not in ("never", "running")]
    cancelled_out = False
    while True:
        choices = [("in", i) for i in pending]
        if not cancelled_out:
            choices.append(("cancel",))
        choices.append(("stop",))
        c = choices[mc.choose(len(choices))]
        if c[0] == "stop":
            break
        if c[0] == "cancel":
            r = out.cancel()
            cancelled_out = True
            order.append(("cancel", r))
        else:
            i = c[1]
            pending.remove(i)
            finish_input(mc, ins[i], i, outs[i])
            order.append(("in", i))
        mc.emit("step", ev=c, out=snapshot(out), typ=type(out.result(0)).__name__ if snapshot(out)[0] == "ok" else None)
    mc.observe(out=snapshot(out), order=tuple(order), ncancel=tuple(f.cancel_calls for f in ins), trav=tuple(tl),
               typ=type(out.result(0)).__name__ if snapshot(out)[0] == "ok" else None)


def hcheck(x):
    p = x.p
    if not x.require(x.end == "done" and "out" in x.obs, "bad-ending", end=x.end):
        return
    outs = p["outs"]
    n = len(outs)
    kind = p["kind"]
    order = x.obs["order"]
    steps = [e for e in x.log if e["kind"] == "step"]
    seq = []
    decided_at = None
    for k, ev in enumerate(order):
        if ev[0] == "cancel":
            prev, dk = ref_zip(kind, outs, seq, p["dup"])
            if dk is not None:
                x.require(ev[1] is (prev[0] == "cancelled"), "cancel-result-after-decided")
            else:
                x.require(ev[1] is True, "cancel-false-while-undecided")
                seq.append(("cancel",))
        else:
            seq.append(ev)
        want, dk = ref_zip(kind, outs, seq, p["dup"])
        got = steps[k]["out"]
        x.require(got == (want[0], brief(want[1])), "wrong-outcome", kind=kind,
                  detail="outs=%r history=%r got %r want %r" % (outs, seq, got, want))
        if dk is not None and decided_at is None:
            decided_at = k
    want, dk = ref_zip(kind, outs, seq, p["dup"])
    got = x.obs["out"]
    x.require(got == (want[0], brief(want[1])), "wrong-outcome", kind=kind,
              detail="outs=%r history=%r got %r want %r" % (outs, seq, got, want))
    if got[0] == "ok":
        typ = x.obs["typ"]
        if kind == "zip":
            x.require(typ.startswith("ZipTuple") or typ == "tuple", "wrong-container-type", typ=typ)
        else:
            x.require(typ == "list", "wrong-container-type", typ=typ)
    if kind == "traverse":
        m = len(p["dup"]) if p["dup"] else n
        x.require(x.obs["trav"] == tuple(range(m)), "traverse-fn-calls", detail=repr(x.obs["trav"]))
    cancelled_by_user = any(ev[0] == "cancel" and ev[1] is True for ev in order)
    if cancelled_by_user and decided_at is not None:
        before = [ev[1] for ev in order[:decided_at + 1] if ev[0] == "in"]
        for i in (set(p["dup"]) if p["dup"] else range(n)):
            if i not in before:
                x.require(x.obs["ncancel"][i] >= 1, "pending-input-not-cancelled", i=i, kind=kind,
                          detail="outs=%r history=%r ncancel=%r" % (outs, order, x.obs["ncancel"]))


harness("c15.hist", prop="C15", traced=(), horizon=20, params=_hparams((0, 1, 2, 3)))(hbody)
oracle("c15.hist")(hcheck)
_falsy = [dict(kind=_k, outs=_o, dup=None) for _k in ("zip", "sequence", "traverse") for _n in (1, 2, 3)
          for _o in itertools.product(("v", "fexc", "cancelled"), repeat=_n) if "fexc" in _o]
harness("c15.falsy", prop="C15", traced=(), horizon=20, params=_falsy)(hbody)
oracle("c15.falsy")(hcheck)
harness("c15.hist4", prop="C15", traced=(), horizon=20, params=_hparams((4,), ("zip", "traverse")))(hbody)
oracle("c15.hist4")(hcheck)
_dups = []
for _k in ("zip", "sequence", "traverse"):
    for _outs in itertools.product(("v", "exc", "cancelled"), repeat=2):
        for _dm in ((0, 1, 0), (0, 0), (1, 0, 1, 0)):
            _dups.append(dict(kind=_k, outs=_outs, dup=_dm))
harness("c15.dups", prop="C15", traced=(), horizon=20, params=_dups)(hbody)
oracle("c15.dups")(hcheck)


# ------------------------------------------------------------------ many inputs (index bookkeeping)
def _lparams():
    out = []
    for kind in ("zip", "sequence", "traverse"):
        for n in list(range(15, 26)) + [50]:
            for rev in (False, True):
                for bad in (None, 0, n // 2, n - 1):
                    out.append(dict(kind=kind, n=n, rev=rev, bad=bad, pre=False))
            out.append(dict(kind=kind, n=n, rev=False, bad=None, pre=True))
    return out


def lbody(mc, p):
    n = p["n"]
    ins = [ProbeFuture(mc, "in%d" % i) for i in range(n)]
    if p["pre"]:
        for i, f in enumerate(ins):
            f.set_running_or_notify_cancel()
            f.set_result("r%d" % i)
    tl = []
    out = build(mc, p["kind"], ins, None, tl)
    idx = list(range(n))
    if p["rev"]:
        idx.reverse()
    if not p["pre"]:
        for i in idx:
            f = ins[i]
            f.set_running_or_notify_cancel()
            if p["bad"] == i:
                f.set_exception(E2("x%d" % i))
            else:
                f.set_result("r%d" % i)
    s = snapshot(out)
    mc.observe(out=s if s[0] != "ok" else ("ok", len(out.result(0))), exact=s[0] == "ok" and list(out.result(0)) == ["r%d" % i for i in range(n)],
               typ=type(out.result(0)).__name__ if s[0] == "ok" else None)


def lcheck(x):
    p = x.p
    if not x.require(x.end == "done" and "out" in x.obs, "bad-ending", end=x.end):
        return
    got = x.obs["out"]
    if p["bad"] is None:
        x.require(got == ("ok", p["n"]) and x.obs["exact"], "wrong-outcome", kind=p["kind"], n=p["n"], detail=repr(got))
    else:
        x.require(got == ("err", "E2(x%d)" % p["bad"]), "wrong-outcome", kind=p["kind"], n=p["n"], detail=repr(got))


harness("c15.large", prop="C15", traced=(), horizon=20, params=_lparams())(lbody)
oracle("c15.large")(lcheck)


# ------------------------------------------------------------------ traverse: fn raising
def _tparams():
    return [dict(n=n, bad=b, exc=e) for n in (1, 2, 3) for b in range(n) for e in ("E2", "StopIteration", "KeyError")]


def tbody(mc, p):
    ins = [ProbeFuture(mc, "in%d" % i) for i in range(p["n"])]
    calls = []

    def fn(k):
        calls.append(k)
        if k == p["bad"]:
            if p["exc"] == "StopIteration":
                raise StopIteration("fn%d" % k)
            if p["exc"] == "KeyError":
                raise KeyError("fn%d" % k)
            raise E2("fn%d" % k)
        return ins[k]
    out = F.f_traverse(fn, list(range(p["n"])))
    mc.observe(out=snapshot(out), calls=tuple(calls))


def tcheck(x):
    if not x.require(x.end == "done" and "out" in x.obs, "bad-ending", end=x.end):
        return
    want = {"E2": "E2(fn%d)", "StopIteration": "StopIteration(fn%d)", "KeyError": "KeyError('fn%d')"}[x.p["exc"]] % x.p["bad"]
    x.require(x.obs["out"] == ("err", want), "traverse-fn-exception-not-output", detail=repr(x.obs["out"]))
    x.require(x.obs["calls"] == tuple(range(x.p["bad"] + 1)), "traverse-fn-calls", detail=repr(x.obs["calls"]))


harness("c15.travfail", prop="C15", traced=(), horizon=20, params=_tparams())(tbody)
oracle("c15.travfail")(tcheck)


# ------------------------------------------------------------------ concurrent completions
def _cparams():
    out = []
    for kind in ("zip", "sequence"):
        for outs in list(itertools.product(("v", "exc", "cancelled"), repeat=2)) + [("v", "v", "v"), ("v", "exc", "v"), ("exc", "v", "cancelled")]:
            out.append(dict(kind=kind, outs=outs))
    return out


def cbody(mc, p):
    outs = p["outs"]
    n = len(outs)
    ins = [ProbeFuture(mc, "in%d" % i) for i in range(n)]
    out = build(mc, p["kind"], ins, None, [])
    for i in range(n):
        mc.spawn(lambda i=i: finish_input(mc, ins[i], i, outs[i]), "end%d" % i)
    mc.sleep(3)
    s = snapshot(out)
    mc.observe(out=s, raw_ok=(s[0] != "ok") or all(isinstance(v, str) for v in out.result(0)))


def ccheck(x):
    p = x.p
    if not x.require(x.end == "done" and "out" in x.obs, "bad-ending", end=x.end):
        return
    outs = p["outs"]
    n = len(outs)
    ops = []
    for i in range(n):
        a = [e for e in x.log if e["kind"] == "in.call" and e["i"] == i][0]["seq"]
        b = [e for e in x.log if e["kind"] == "in.ret" and e["i"] == i][0]["seq"]
        ops.append((("in", i), a, b))
    got = x.obs["out"]
    x.require(x.obs["raw_ok"], "future-object-in-result", detail=repr(got))
    ok = False
    for perm in itertools.permutations(ops):
        good = all(not (perm[v][2] < perm[u][1]) for u in range(len(perm)) for v in range(u + 1, len(perm)))
        if not good:
            continue
        want, _ = ref_zip(p["kind"], outs, [ev for ev, _, _ in perm])
        if got == (want[0], brief(want[1])):
            ok = True
            break
    x.require(ok, "not-linearizable", kind=p["kind"], detail="outs=%r got %r" % (outs, got))


harness("c15.conc", prop="C15", traced=("futures.zip", "futures.base"), horizon=20, params=_cparams())(cbody)
oracle("c15.conc")(ccheck)

PLAN = {
    "quick": [dict(harness="c15.hist", bound=0), dict(harness="c15.falsy", bound=0), dict(harness="c15.dups", bound=0), dict(harness="c15.large", bound=0),
              dict(harness="c15.travfail", bound=0), dict(harness="c15.conc", bound=2)],
    "thorough": [dict(harness="c15.hist", bound=0), dict(harness="c15.falsy", bound=0), dict(harness="c15.hist4", bound=0), dict(harness="c15.dups", bound=0),
                 dict(harness="c15.large", bound=0), dict(harness="c15.travfail", bound=0), dict(harness="c15.conc", bound=3)],
}

"""C11 - shutdown: submit refuses afterwards, idempotent, propagates, joins, returns."""
from mc.harness import harness, oracle
from mc.kit import E, brief
from more_executors import Executors
from .common import Stack, LAYERS

MSG = "cannot schedule new futures after shutdown"
TOPS = [(l,) for l in LAYERS] + [(), ("asyncio",)]
STACKS = [("map", "retry"), ("retry", "map", "poll", "cancel_on_shutdown"), ("retry", "throttle"),
          ("throttle", "timeout")]


def _workloads(layers):
    w = ["idle", "queued", "running", "done"]
    if layers and not any(l in ("retry", "throttle", "asyncio") for l in layers):
        # (retry / throttle call the delegate from their own worker thread: a delegate whose
        # submit() raises is then an environment fault outside this property)
        w.append("submit_faulted")
    if "retry" in layers:
        w.append("between_retries")
    if "poll" in layers:
        w.append("polling")
    if "throttle" in layers:
        w.append("throttled")
    return w


def _params(stacks):
    out = []
    for layers in stacks:
        for wl in _workloads(layers):
            for wait in (True, False):
                for kw in ((), (("cancel_futures", True),)):
                    for racer in (False, True):
                        if "asyncio" in layers and (racer or wl != "idle"):
                            continue
                        if kw and (racer or wl not in ("idle", "queued")):
                            continue
                        if layers == ():
                            if wl not in ("idle", "done"):
                                continue
                            out.append(dict(layers=layers, workload=wl, wait=wait, kw=kw, racer=racer, base="sync"))
                            out.append(dict(layers=layers, workload=wl, wait=wait, kw=kw, racer=racer, base="tp"))
                            continue
                        out.append(dict(layers=layers, workload=wl, wait=wait, kw=kw, racer=racer, base="manual"))
                        if not racer and not kw and wl in ("idle", "queued", "running"):
                            out.append(dict(layers=layers, workload=wl, wait=wait, kw=kw, racer=racer, base="manual",
                                            conc=True))
    # a delegate that keeps accepting after its shutdown() (user-written Executor overriding only
    # submit()): every library layer must still refuse by itself
    for layers in stacks:
        if "asyncio" in layers or layers == ():
            continue
        for wait in (True, False):
            out.append(dict(layers=layers, workload="idle", wait=wait, kw=(), racer=False, base="manual", lenient=True))
    return out


def body(mc, p):
    layers = tuple(l for l in p["layers"] if l != "asyncio")
    wl = p["workload"]
    opts = {}
    if wl == "polling":
        for pos, l in enumerate(layers):
            if l == "poll":
                opts["poll_fn@%d" % pos] = [("ret", None)]      # never yields
    if wl == "throttled":
        opts["count"] = 0
    n0 = len(mc.s.threads)
    st = Stack(mc, layers, base=p["base"], workers=1 if p["base"] != "manual" else 1 if wl in ("running", "between_retries", "polling", "done") else 0,
               opts=opts)
    ex = st.top
    if p.get("lenient"):
        st.base.lenient_shutdown = True
    if "asyncio" in p["layers"]:
        ex = Executors.with_asyncio(ex)
        st.execs.append(ex)
    harness_threads = set(st.worker_threads)
    release = [False]

    def plain():
        mc.point()
        return "p"

    def blocker():
        mc.emit("callable.blocked")
        mc.wait_until(lambda: release[0])
        return "b"

    failing = st.script("callable", [("raise", E), ("ret", "ok")])

    if wl == "submit_faulted" and st.base is not None:
        # a submit() whose delegate raises, on a thread that stays alive afterwards
        st.base.fail_submits = 1

        def faulter():
            try:
                ex.submit(plain)
                mc.emit("fault.submit", out="accepted")
            except TypeError:
                mc.emit("fault.submit", out="TypeError")
            except Exception as e:
                mc.emit("fault.submit", out=type(e).__name__)
            mc.wait_until(lambda: release[0])
        harness_threads.add(mc.spawn(faulter, "faulter", client=False))
        mc.sleep(0.5)
    if wl in ("queued", "throttled", "polling", "done"):
        ex.submit(plain)
    elif wl == "running":
        ex.submit(blocker)
    elif wl == "between_retries":
        ex.submit(failing)
    if wl in ("running", "between_retries", "polling", "done"):
        mc.sleep(0.5)          # let the workload reach its state (retry sleeps until t=1)

    kw = dict(p["kw"])

    other_done = [not p.get("conc")]

    def shutter2():
        mc.call("shutdown3", ex.shutdown, p["wait"], **kw)
        other_done[0] = True

    def shutter():
        mc.call("shutdown", ex.shutdown, p["wait"], **kw)
        # two threads calling shutdown() at once is outside the stated quantifier ("the
        # shutdown"): the post-conditions are only demanded once both calls have returned
        mc.wait_until(lambda: other_done[0])
        alive = sorted(t.name for t in mc.s.threads[n0:]
                       if not t.client and t not in harness_threads and not t.finished)
        mc.emit("after.shutdown", alive=tuple(alive))
        # refuses afterwards, on every layer of the chain
        for k, e in enumerate(st.execs):
            if p.get("lenient") and e is st.base:
                continue                    # the stand-in delegate is lenient by construction
            try:
                e.submit(plain)
                mc.emit("late.submit", layer=k, out="accepted")
            except RuntimeError as err:
                mc.emit("late.submit", layer=k, out="RuntimeError", ok=MSG in str(err))
            except Exception as err:
                mc.emit("late.submit", layer=k, out=type(err).__name__)
        mc.call("shutdown2", ex.shutdown, p["wait"], **kw)

    def racer():
        try:
            f = ex.submit(plain)
            mc.emit("race.submit", out="future")
        except RuntimeError as err:
            mc.emit("race.submit", out="RuntimeError", ok=MSG in str(err))
        except Exception as err:
            mc.emit("race.submit", out=type(err).__name__, msg=str(err)[:80])

    def releaser():
        mc.sleep(3)
        release[0] = True

    mc.spawn(shutter, "shut")
    if p.get("conc"):
        mc.spawn(shutter2, "shut2")
    if p["racer"]:
        mc.spawn(racer, "racer")
    if wl == "running":
        mc.spawn(releaser, "releaser")
    mc.sleep(20)
    if st.base is not None:
        mc.observe(base_shutdowns=tuple((w, tuple(sorted(k.items()))) for w, k in st.base.shutdowns))


def check(x):
    p = x.p
    ret = x.events("ret", op="shutdown")
    if not x.require(len(ret) == 1, "shutdown-did-not-return", end=x.end, wait=p["wait"]):
        return
    x.require(len(x.events("ret", op="shutdown2")) == 1, "second-shutdown-did-not-return", end=x.end)
    if p.get("conc"):
        x.require(len(x.events("ret", op="shutdown3")) == 1, "concurrent-shutdown-did-not-return", end=x.end)
    bs = x.obs.get("base_shutdowns", ())
    if p["base"] == "manual":
        x.require(len(bs) == 1, "base-shutdown-count", n=len(bs))
    if bs:
        x.require(bs[0][0] == p["wait"] and bs[0][1] == tuple(sorted(dict(p["kw"]).items())),
                  "base-shutdown-args", detail=repr(bs[0]))
        first = x.events("base.shutdown")[0]
        if not p.get("conc"):
            x.require(first["seq"] < ret[0]["seq"], "base-shutdown-after-return")
    for e in x.events("late.submit"):
        x.require(e["out"] == "RuntimeError" and e.get("ok"), "submit-after-shutdown", layer=e["layer"], out=e["out"])
    for e in x.events("race.submit"):
        x.require(e["out"] == "future" or (e["out"] == "RuntimeError" and e.get("ok")), "racing-submit", out=e["out"],
                  detail=e.get("msg"))
    if p["wait"]:
        for e in x.events("after.shutdown"):
            x.require(not e["alive"], "thread-alive-after-shutdown-wait", alive="+".join(e["alive"]))
    for name, exc in x.deaths:
        x.require(False, "thread-died", thread=name.split("-")[0], exc=exc[0], detail=exc[2][-400:])


harness("c11.single", prop="C11", traced=(), horizon=60, params=_params(TOPS))(body)
oracle("c11.single")(check)
harness("c11.single.lines", prop="C11", traced=("*",), horizon=60, params=_params(TOPS))(body)
oracle("c11.single.lines")(check)
harness("c11.stacks", prop="C11", traced=(), horizon=60, params=_params(STACKS))(body)
oracle("c11.stacks")(check)

PLAN = {
    "quick": [dict(harness="c11.single", bound=2),
              dict(harness="c11.single.lines", bound=1),
              dict(harness="c11.stacks", bound=1)],
    "thorough": [dict(harness="c11.single", bound=3),
                 dict(harness="c11.single.lines", bound=2, select=lambda p: p["racer"]),
                 dict(harness="c11.stacks", bound=2)],
}

"""C13 - map / flat_map laws: fn on success, error_fn on failure, exceptions preserved."""
import itertools

from mc.harness import harness, oracle
from mc.kit import E, E2, ManualExecutor, ProbeFuture, snapshot, brief
from more_executors import Executors
from more_executors._impl import futures as F

FN_MAP = (None, "ret", "raise")
FN_FLAT = (None, "fut_ok", "fut_err", "fut_cancelled", "fut_later", "nonfuture", "raise")
EFN_MAP = (None, "ret", "raise", "reraise", "raise_equal")
EFN_FLAT = (None, "fut_ok", "raise", "reraise", "nonfuture", "raise_equal")


class BE(BaseException):
    """a failure that is not an Exception subclass (like SystemExit / KeyboardInterrupt)"""

    def __init__(self, tag):
        BaseException.__init__(self, tag)
        self.tag = tag


class EqE(Exception):
    """exceptions of this class all compare equal (value-style __eq__)"""

    def __init__(self, tag):
        Exception.__init__(self, tag)
        self.tag = tag

    def __eq__(self, other):
        return isinstance(other, EqE)

    def __hash__(self):
        return 7


def _params():
    out = []
    for flat in (False, True):
        for form in ("executor", "f"):
            for inp in ("ok", "err", "err_base"):
                for timing in ("done", "later"):
                    for fn in (FN_FLAT if flat else FN_MAP):
                        if inp == "err_base" and fn not in (None, "ret", "fut_ok"):
                            continue
                        for efn in (EFN_FLAT if flat else EFN_MAP):
                            if inp == "err_base" and efn not in (None, "ret", "fut_ok"):
                                continue        # a BaseException raised *by* error_fn is outside the property
                            out.append(dict(flat=flat, form=form, inp=inp, timing=timing, fn=fn, efn=efn))
                            if timing == "later" and (efn is None or fn in ("fut_cancelled", "fut_later")):
                                # a cancel() of the output is refused first (input already running);
                                # the laws must hold unchanged afterwards
                                out.append(dict(flat=flat, form=form, inp=inp, timing=timing, fn=fn, efn=efn, refused=True))
    return out


def origin(exc):
    raise exc


def body(mc, p):
    calls = {"fn": [], "efn": []}
    later = ProbeFuture(mc, "later")
    orig = EqE("in") if p["efn"] == "raise_equal" else (BE("in") if p["inp"] == "err_base" else E("in"))
    newexc = []

    def fn(x):
        calls["fn"].append(x)
        mc.emit("fn", arg=brief(x))
        k = p["fn"]
        if k == "ret":
            return ("g", x)
        if k == "raise":
            raise E2("fn")
        if k == "fut_ok":
            return F.f_return(("g", x))
        if k == "fut_err":
            return F.f_return_error(E2("inner"))
        if k == "fut_cancelled":
            return F.f_return_cancelled()
        if k == "fut_later":
            return later
        if k == "nonfuture":
            return 7

    def efn(ex):
        calls["efn"].append(ex)
        mc.emit("efn", arg=brief(ex), same=ex is orig)
        k = p["efn"]
        if k == "ret":
            return ("e", getattr(ex, "tag", "?"))
        if k == "fut_ok":
            return F.f_return(("e", getattr(ex, "tag", "?")))
        if k == "raise":
            raise E2("efn")
        if k == "reraise":
            raise ex
        if k == "raise_equal":
            e2 = EqE("other")          # equal to, but not, the input's exception
            newexc.append(e2)
            raise e2
        if k == "nonfuture":
            return 8

    kw = {}
    args = []
    if p["fn"] is not None:
        kw["fn"] = fn
    if p["efn"] is not None:
        kw["error_fn"] = efn
    base = ManualExecutor(mc, mode="hold")
    if p["form"] == "executor":
        ex = Executors.with_flat_map(base, **kw) if p["flat"] else Executors.with_map(base, **kw)
        if p["timing"] == "done":
            # an already finished delegate future: complete inside submit via an inline base
            base.mode = "inline"
        out = ex.submit((lambda: "x") if p["inp"] == "ok" else (lambda: origin(orig)))   # (inline base: kit catches BaseException)
        src = base.items[0].future
    else:
        src = ProbeFuture(mc, "src")
        if p["timing"] == "done":
            src.set_running_or_notify_cancel()
            if p["inp"] == "ok":
                src.set_result("x")
            else:
                try:
                    origin(orig)
                except (Exception, BE) as e:
                    src.set_exception(e)
        out = F.f_flat_map(src, **kw) if p["flat"] else F.f_map(src, **kw)
    mc.emit("before", s=snapshot(out))
    if p.get("refused"):
        src.set_running_or_notify_cancel()
        mc.emit("refused.cancel", ret=out.cancel())
    if p["timing"] == "later":
        if p["form"] == "executor" and not p.get("refused"):
            if p["inp"] == "ok":
                base.complete(0, "x")
            else:
                try:
                    origin(orig)
                except (Exception, BE) as e:
                    base.complete(0, exc=e)
        else:
            if not p.get("refused"):
                src.set_running_or_notify_cancel()
            if p["inp"] == "ok":
                src.set_result("x")
            else:
                try:
                    origin(orig)
                except (Exception, BE) as e:
                    src.set_exception(e)
    mid = snapshot(out)
    if later.set_running_or_notify_cancel():
        later.set_result(("late", "x"))
    s = snapshot(out)
    exc = out.exception(timeout=0) if s[0] == "err" else None
    tb_has_origin = None
    if exc is not None:
        tb = exc.__traceback__
        names = []
        while tb is not None:
            names.append(tb.tb_frame.f_code.co_name)
            tb = tb.tb_next
        tb_has_origin = "origin" in names
    mc.observe(is_new=(exc is newexc[0]) if (exc is not None and newexc) else None, out=s, mid=mid, nfn=len(calls["fn"]), nefn=len(calls["efn"]), same=exc is orig if exc is not None else None,
               tb_has_origin=tb_has_origin, fnargs=tuple(brief(a) for a in calls["fn"]),
               efn_same=tuple(a is orig for a in calls["efn"]))


def ref(p):
    """(out state/value, n fn calls, n efn calls, same-object?, pending until 'later' completes?)"""
    flat = p["flat"]
    if p["inp"] == "ok":
        k = p["fn"]
        if k is None:
            return ("ok", "x"), 0, 0, None
        if k == "ret":
            return ("ok", ("g", "x")), 1, 0, None
        if k == "raise":
            return ("err", "E2(fn)"), 1, 0, False
        if k == "fut_ok":
            return ("ok", ("g", "x")), 1, 0, None
        if k == "fut_err":
            return ("err", "E2(inner)"), 1, 0, False
        if k == "fut_cancelled":
            return ("cancelled", None), 1, 0, None
        if k == "fut_later":
            return ("ok", ("late", "x")), 1, 0, None
        if k == "nonfuture":
            return ("err", "TypeError"), 1, 0, False
    else:
        k = p["efn"]
        tagname = "BE(in)" if p["inp"] == "err_base" else "E(in)"
        if k is None:
            return ("err", tagname), 0, 0, True
        if k == "ret":
            return ("ok", ("e", "in")), 0, 1, None
        if k == "fut_ok":
            return ("ok", ("e", "in")), 0, 1, None
        if k == "raise":
            return ("err", "E2(efn)"), 0, 1, False
        if k == "reraise":
            return ("err", tagname), 0, 1, True
        if k == "raise_equal":
            return ("err", "EqE(other)"), 0, 1, False
        if k == "nonfuture":
            return ("err", "TypeError"), 0, 1, False


def check(x):
    p = x.p
    if not x.require(x.end == "done" and "out" in x.obs, "bad-ending", end=x.end):
        return
    want, nfn, nefn, same = ref(p)
    got = x.obs["out"]
    if want == ("err", "TypeError"):
        ok = got[0] == "err" and str(got[1]).startswith("TypeError")
    else:
        ok = got == (want[0], brief(want[1]))
    x.require(ok, "wrong-outcome", detail="got %r want %r" % (got, want), inp=p["inp"], fn=p["fn"], efn=p["efn"], flat=p["flat"])
    x.require(x.obs["nfn"] == nfn, "fn-call-count", got=x.obs["nfn"], want=nfn)
    x.require(x.obs["nefn"] == nefn, "error-fn-call-count", got=x.obs["nefn"], want=nefn)
    if nfn:
        x.require(x.obs["fnargs"] == ("x",), "fn-argument", detail=repr(x.obs["fnargs"]))
    if nefn:
        x.require(x.obs["efn_same"] == (True,), "error-fn-argument-not-the-exception")
    if p["efn"] == "raise_equal" and p["inp"] == "err":
        x.require(x.obs["is_new"] is True, "error-fn-exception-replaced-by-equal-one", detail=repr(got))
    if same is True:
        x.require(x.obs["same"] is True, "exception-not-same-object")
        x.require(x.obs["tb_has_origin"] is True, "traceback-lost")
    for e in x.events("refused.cancel"):
        x.require(e["ret"] is False, "cancel-true-while-input-running")
    if p["fn"] == "fut_later" and p["inp"] == "ok":
        x.require(x.obs["mid"][0] == "pending", "resolved-before-inner-future")


harness("c13.laws", prop="C13", traced=(), horizon=20, params=_params())(body)
oracle("c13.laws")(check)


# ------------------------------------------------------------------ chains: g then h == h o g
def _cparams():
    out = []
    beh = ("ret", "raise", None)
    for n in (2, 3):
        for fns in itertools.product(beh, repeat=n):
            for inp in ("ok", "err"):
                for form in ("executor", "f"):
                    out.append(dict(fns=fns, inp=inp, form=form))
    return out


def cbody(mc, p):
    def mk(i, k):
        if k is None:
            return None
        if k == "ret":
            return lambda v: ("g%d" % i, v)
        def bad(v):
            raise E2("g%d" % i)
        return bad
    fns = [mk(i, k) for i, k in enumerate(p["fns"])]
    base = ManualExecutor(mc, mode="inline")
    inp_fn = (lambda: "x") if p["inp"] == "ok" else (lambda: origin(E("in")))
    # chained
    if p["form"] == "executor":
        ex = base
        for f in fns:
            ex = Executors.with_map(ex, f)
        chained = ex.submit(inp_fn)
    else:
        chained = base.submit(inp_fn)
        for f in fns:
            chained = F.f_map(chained, f)

    # composed in one function
    def composed(v):
        for f in fns:
            if f is not None:
                v = f(v)
        return v
    base2 = ManualExecutor(mc, mode="inline", label="c")
    single = Executors.with_map(base2, composed).submit(inp_fn)
    mc.observe(chained=snapshot(chained), single=snapshot(single))


def ccheck(x):
    if not x.require(x.end == "done" and "chained" in x.obs, "bad-ending", end=x.end):
        return
    x.require(x.obs["chained"] == x.obs["single"], "chain-not-composition",
              detail="chained %r vs composed %r" % (x.obs["chained"], x.obs["single"]))


harness("c13.chains", prop="C13", traced=(), horizon=20, params=_cparams())(cbody)
oracle("c13.chains")(ccheck)


# ------------------------------------------------------------------ completion racing a cancel of the output
def _rparams():
    out = [dict(flat=fl, form=fo, inp=i, stage=st, inner_end="value") for fl in (False, True) for fo in ("executor", "f")
           for i in ("ok", "err") for st in ("outer", "inner") if not (st == "inner" and (not fl or i == "err"))]
    # the future returned by fn ends up cancelled (directly) while the output is being cancelled
    out += [dict(flat=True, form=fo, inp="ok", stage="inner", inner_end=e) for fo in ("executor", "f")
            for e in ("cancelled", "already_cancelled")]
    return out


def rbody(mc, p):
    nfn = [0]
    inner = ProbeFuture(mc, "inner")

    def fn(v):
        nfn[0] += 1
        mc.emit("fn", arg=brief(v))
        mc.point()
        if p["flat"]:
            if p.get("inner_end") == "already_cancelled":
                return F.f_return_cancelled()
            return inner if p["stage"] == "inner" else F.f_return(("g", v))
        return ("g", v)
    base = ManualExecutor(mc, mode="hold")
    if p["form"] == "executor":
        ex = Executors.with_flat_map(base, fn) if p["flat"] else Executors.with_map(base, fn)
        out = ex.submit(lambda: None)
        src = base.items[0].future
    else:
        src = ProbeFuture(mc, "src")
        out = F.f_flat_map(src, fn) if p["flat"] else F.f_map(src, fn)

    def completer():
        if src.set_running_or_notify_cancel():
            if p["inp"] == "ok":
                src.set_result("x")
            else:
                src.set_exception(E("in"))
        if p["stage"] == "inner" and p.get("inner_end") == "cancelled":
            mc.point()
            from concurrent.futures import Future as _F
            _F.cancel(inner)
            inner.set_running_or_notify_cancel()
        elif p["stage"] == "inner":
            mc.point()
            if inner.set_running_or_notify_cancel():
                inner.set_result(("late", "x"))

    def canceller():
        r = out.cancel()
        mc.emit("cancel.ret", val=r)
    mc.spawn(completer, "comp")
    mc.spawn(canceller, "can")
    mc.sleep(3)
    mc.observe(out=snapshot(out), nfn=nfn[0], src=src._state, inner=inner._state)


def rcheck(x):
    p = x.p
    if not x.require(x.end == "done" and "out" in x.obs, "bad-ending", end=x.end):
        return
    got = x.obs["out"]
    r = x.events("cancel.ret")
    x.require(x.obs["nfn"] <= 1, "fn-called-twice")
    x.require(got[0] != "pending", "pending-at-quiescence", src=x.obs["src"], inner=x.obs["inner"])
    if r and r[0]["val"] is True:
        x.require(got[0] == "cancelled", "true-cancel-not-sticky", got=got[0])
    elif r:
        if p["inp"] == "err":
            want = ("err", "E(in)")
        elif p.get("inner_end") in ("cancelled", "already_cancelled"):
            want = ("cancelled", None)
        elif p["stage"] == "inner":
            want = ("ok", ("late", "x"))
        else:
            want = ("ok", ("g", "x"))
        x.require(got == (want[0], brief(want[1])), "wrong-outcome-after-failed-cancel", detail="got %r want %r" % (got, want))


harness("c13.race", prop="C13", traced=("map", "flat_map", "common"), horizon=20, params=_rparams())(rbody)
oracle("c13.race")(rcheck)

# ------------------------------------------------------------------ chaining onto a future that is being completed
def _kparams():
    return [dict(flat=fl, inp=i, form=fo) for fl in (False, True) for i in ("ok", "err") for fo in ("f", "executor")]


def kbody(mc, p):
    src = ProbeFuture(mc, "src")
    g = (lambda v: F.f_return(("g", v))) if p["flat"] else (lambda v: ("g", v))
    h = (lambda v: F.f_return(("h", v))) if p["flat"] else (lambda v: ("h", v))
    mk = F.f_flat_map if p["flat"] else F.f_map
    m1 = mk(src, g)
    res = {}

    def completer():
        if src.set_running_or_notify_cancel():
            if p["inp"] == "ok":
                src.set_result("x")
            else:
                src.set_exception(E("in"))

    def chainer():
        m2 = mk(m1, h)
        m2.add_done_callback(lambda f: mc.emit("m2.done"))
        res["m2"] = m2
        m3 = mk(m2, None)
        res["m3"] = m3
    mc.spawn(completer, "comp")
    mc.spawn(chainer, "chain")
    mc.sleep(3)
    mc.observe(m1=snapshot(m1), m2=snapshot(res["m2"]) if "m2" in res else None,
               m3=snapshot(res["m3"]) if "m3" in res else None)


def kcheck(x):
    p = x.p
    if not x.require(x.end == "done" and "m2" in x.obs, "bad-ending", end=x.end):
        return
    want = ("ok", ("h", ("g", "x"))) if p["inp"] == "ok" else ("err", "E(in)")
    for k in ("m2", "m3"):
        x.require(x.obs[k] == (want[0], brief(want[1])), "chained-future-wrong", which=k,
                  detail="got %r want %r (m1=%r)" % (x.obs[k], want, x.obs["m1"]))


harness("c13.chainrace", prop="C13", traced=("map", "flat_map", "common"), horizon=20, params=_kparams())(kbody)
oracle("c13.chainrace")(kcheck)

PLAN = {
    "quick": [dict(harness="c13.laws", bound=0), dict(harness="c13.chainrace", bound=2), dict(harness="c13.chains", bound=0), dict(harness="c13.race", bound=2)],
    "thorough": [dict(harness="c13.laws", bound=0), dict(harness="c13.chainrace", bound=2), dict(harness="c13.chainrace", bound=2, order="desc"),
                 dict(harness="c13.chains", bound=0), dict(harness="c13.race", bound=3), dict(harness="c13.race", bound=2, order="desc")],
}

"""C01 - composed executors deliver each callable's own outcome, exactly once."""
import itertools

from mc.harness import harness, oracle
from mc.kit import E, E2, EqE, FalsyE, Script, snapshot, brief
from .common import Stack, LAYERS, ABBR

SCRIPTS = {"ok": ("ok",), "Eok": ("E", "ok"), "EEok": ("E", "E", "ok"), "X": ("X",), "EEEE": ("E",) * 12, "Q": ("Q",),
           "Fok": ("F", "ok"), "FFFF": ("F",) * 12}
PAIRS = (("ok", "ok"), ("Eok", "ok"), ("EEok", "X"), ("X", "Eok"), ("EEEE", "ok"))


def stacks(depth):
    return list(itertools.product(LAYERS, repeat=depth))


def _params(depths, bases=("sync", "tp"), pairs=PAIRS, faulty=True, threads=(1, 2)):
    out = []
    for d in depths:
        for layers in stacks(d):
            for base in bases:
                for pair in pairs:
                    for nthreads in threads:
                        out.append(dict(layers=layers, base=base, scripts=pair, faulty=None, nthreads=nthreads))
                if faulty:
                    for pos, l in enumerate(layers):
                        if l in ("map", "flat_map"):
                            out.append(dict(layers=layers, base=base, scripts=("Eok", "ok"), faulty=pos, nthreads=1))
                            # an error_fn at that position recovers failed submissions
                            for rec in ("none", "value"):
                                out.append(dict(layers=layers, base=base, scripts=("X", "ok"), faulty=None, nthreads=1,
                                                efn=(pos, rec)))
                            # error_fn raises a NEW exception that compares equal to the one it was given
                            out.append(dict(layers=layers, base=base, scripts=("Q", "ok"), faulty=None, nthreads=1,
                                            efn=(pos, "raise_equal")))
                        if l == "flat_map":
                            # fn returns an already failed future while an error_fn is installed: the
                            # returned future's failure is the outcome, error_fn is for failed inputs only
                            out.append(dict(layers=layers, base=base, scripts=("ok", "ok"), faulty=None, nthreads=1,
                                            flatfail=pos))
    return out


def ref_eval(layers, script, faulty, sub, efn=None, flatfail=None):
    """Sequential reference: returns (outcome, number of invocations of the callable).
    outcome = ('ok', value) | ('err', tag-of-exception)"""
    state = {"k": 0}

    def call():
        k = state["k"]
        state["k"] += 1
        o = script[min(k, len(script) - 1)]
        if o == "ok":
            return ("ok", ("v", sub))
        if o == "Q":
            return ("err", "EqE", "fn%d#%d" % (sub, k))
        if o == "E":
            return ("err", "E", "fn%d#%d" % (sub, k))
        if o == "F":
            # a falsy exception object of the retried family
            return ("err", "E", "fn%d#%d" % (sub, k))
        return ("err", "E2", "fn%d#%d" % (sub, k))

    def run(level):
        if level == 0:
            return call()
        layer = layers[level - 1]
        pos = level - 1
        if layer == "retry":
            out = None
            for attempt in range(1, 4):
                out = run(level - 1)
                if out[0] == "ok" or out[1] != "E" or attempt == 3:
                    return out
            return out
        out = run(level - 1)
        if flatfail == pos and out[0] == "ok":
            return ("err", "E2", "inner@%d" % pos)
        if efn is not None and efn[0] == pos and out[0] == "err":
            if efn[1] == "raise_equal":
                return ("err", "EqE", "efn@%d" % pos)
            return ("ok", None if efn[1] == "none" else ("rec", pos))
        if layer in ("map", "flat_map", "poll") and out[0] == "ok":
            if faulty == pos:
                return ("err", "E2", "fault@%d" % pos)
            return ("ok", ("%s%d" % (ABBR[layer], pos), out[1]))
        return out
    out = run(len(layers))
    return out, state["k"]


def body(mc, p):
    layers = p["layers"]
    opts = dict(sleep=1.0, count=2, poll_interval=1.0, timeout=1000.0)
    if p["faulty"] is not None:
        pos = p["faulty"]
        key = ("map_fn@%d" if layers[pos] == "map" else "flat_fn@%d") % pos
        opts[key] = [("raise", E2, "fault@%d" % pos)]
    if p.get("efn"):
        from more_executors._impl.futures import f_return
        pos, rec = p["efn"]
        val = None if rec == "none" else ("rec", pos)
        if rec == "raise_equal":
            opts["error_fn@%d" % pos] = [("raise", EqE, "efn@%d" % pos)]
        elif layers[pos] == "map":
            opts["error_fn@%d" % pos] = [("ret", val)]
        else:
            opts["error_fn@%d" % pos] = [("call", lambda ex, _v=val: f_return(_v))]
    if p.get("flatfail") is not None:
        from more_executors._impl.futures import f_return, f_return_error
        pos = p["flatfail"]
        inner_excs = []

        def failing_future(v, _pos=pos):
            exc = E2("inner@%d" % _pos)
            inner_excs.append(exc)
            return f_return_error(exc)
        opts["flat_fn@%d" % pos] = [("call", failing_future)]
        opts["error_fn@%d" % pos] = [("call", lambda ex, _pos=pos: f_return(("rec", _pos)))]
    st = Stack(mc, layers, base=p["base"], workers=2, opts=opts)
    ex = st.top
    OUT = {"ok": None, "E": ("raise", E), "X": ("raise", E2), "Q": ("raise", EqE), "F": ("raise", FalsyE)}
    fns, fs = [], [None, None]
    for i, sk in enumerate(p["scripts"]):
        entries = []
        for o in SCRIPTS[sk]:
            entries.append(("ret", ("v", i)) if o == "ok" else OUT[o])
        fns.append(Script(mc, "fn%d" % i, entries))

    def submit(i):
        # keyword names that the library's own extended submit methods use as parameter names
        # (submit_timeout(timeout, ...), submit_retry(retry_policy, ...)) are ordinary keywords of the callable
        fs[i] = ex.submit(fns[i], ("a", i), kw=("k", i), timeout=("t", i), retry_policy=("p", i))
        fs[i].add_done_callback(lambda f, i=i: mc.emit("done", i=i))
    if p.get("single"):
        submit(0)                   # one submission only: keeps the d=3 exploration small
        fs[1] = fs[0]
    elif p["nthreads"] == 1:
        submit(0)
        submit(1)
    else:
        mc.spawn(lambda: submit(0), "sub0")
        mc.spawn(lambda: submit(1), "sub1")
    mc.sleep(60)
    res = []
    for i in range(2):
        f = fs[i]
        if f is None:
            res.append(("missing", None, None))
            continue
        s = snapshot(f)
        same = None
        if s[0] == "err":
            exc = f.exception(timeout=0)
            same = any(exc is r for r in fns[i].raised) or None
            if p.get("efn") and p["efn"][1] == "raise_equal" and i == 0:
                # must be the very object error_fn raised, not the (equal) one it was given
                same = any(exc is r for name, sc in st.user.items() if name.startswith("error_fn") for r in sc.raised) or None
            if same is None and p["faulty"] is not None:
                same = any(exc is r for sc in st.user.values() for r in sc.raised) or None
            if same is None and p.get("flatfail") is not None:
                same = any(exc is r for r in inner_excs) or None
        res.append((s[0], s[1], same))
    mc.observe(res=tuple(res), ncalls=tuple(len(fn.calls) for fn in fns),
               args=tuple(tuple((brief(a), brief(k)) for a, k in fn.calls) for fn in fns))
    st.shutdown(True)


def check(x):
    p = x.p
    if not x.require(x.end == "done" and "res" in x.obs, "bad-ending", end=x.end, depth=len(p["layers"])):
        return
    for i, sk in enumerate(p["scripts"]):
        if p.get("single") and i == 1:
            break
        want, ncalls = ref_eval(p["layers"], SCRIPTS[sk], p["faulty"], i, p.get("efn"), p.get("flatfail"))
        state, val, same = x.obs["res"][i]
        if want[0] == "ok":
            ok = state == "ok" and val == brief(want[1])
        else:
            ok = state == "err" and ("(%s)" % want[2]) in str(val)
        x.require(ok, "wrong-outcome", depth=len(p["layers"]),
                  detail="stack=%s base=%s script=%s faulty=%r: got (%s, %r) want %r" % (
                      "+".join(p["layers"]), p["base"], sk, p["faulty"], state, val, want))
        if want[0] == "err" and state == "err":
            x.require(same is True, "exception-not-the-object-raised")
        x.require(x.obs["ncalls"][i] == ncalls, "invocation-count", depth=len(p["layers"]),
                  detail="stack=%s script=%s: %d calls, reference %d" % ("+".join(p["layers"]), sk, x.obs["ncalls"][i], ncalls))
        for a, k in x.obs["args"][i]:
            x.require(a == (("a", i),) and k == (("kw", ("k", i)), ("retry_policy", ("p", i)), ("timeout", ("t", i))),
                      "wrong-arguments", detail=repr((a, k)))
        x.require(len([e for e in x.log if e["kind"] == "done" and e["i"] == i]) == 1, "done-callback-count")
    for name, exc in x.deaths:
        x.require(False, "thread-died", thread=name.split("-")[0].split("_")[0], exc=exc[0], detail=exc[2][-500:])


harness("c01.d1", prop="C01", traced=(), horizon=120, params=_params((1,)))(body)
oracle("c01.d1")(check)
harness("c01.d2", prop="C01", traced=(), horizon=120, params=_params((2,)))(body)
oracle("c01.d2")(check)
harness("c01.d3", prop="C01", traced=(), horizon=120, params=_params((3,), pairs=PAIRS[:4], threads=(1,)))(body)
oracle("c01.d3")(check)
harness("c01.d4", prop="C01", traced=(), horizon=200, params=_params((4,), pairs=(("Eok", "ok"), ("EEok", "X")), faulty=False, threads=(1,)))(body)
oracle("c01.d4")(check)
harness("c01.d5", prop="C01", traced=(), horizon=400,
        params=_params((5,), bases=("sync",), pairs=(("Eok", "X"),), faulty=False, threads=(1,)))(body)
oracle("c01.d5")(check)
harness("c01.d6", prop="C01", traced=(), horizon=800,
        params=_params((6,), bases=("sync",), pairs=(("Eok", "X"),), faulty=False, threads=(1,)))(body)
oracle("c01.d6")(check)

# exception objects that are falsy travel through every layer like any other exception
harness("c01.falsy", prop="C01", traced=(), horizon=120,
        params=_params((1, 2), pairs=(("Fok", "ok"), ("FFFF", "ok")), faulty=False, threads=(1,)))(body)
oracle("c01.falsy")(check)

MF = ("map", "flat_map", "throttle", "timeout")
harness("c01.lines", prop="C01", traced=("common", "map"), horizon=120,
        params=[dict(layers=(a, b), base="tp", scripts=(sc, "ok"), faulty=None, nthreads=1)
                for a in MF for b in MF for sc in ("X", "ok")])(body)
oracle("c01.lines")(check)

harness("c01.narrow", prop="C01", traced=("common", "map"), horizon=120,
        params=[dict(layers=("map", "map"), base="tp", scripts=("X", "ok"), faulty=None, nthreads=1, single=True),
                dict(layers=("map", "map"), base="tp", scripts=("ok", "ok"), faulty=None, nthreads=1, single=True)])(body)
oracle("c01.narrow")(check)

PLAN = {
    "quick": [dict(harness="c01.d1", bound=2), dict(harness="c01.d2", bound=1, select=lambda p: p["nthreads"] == 2 or p["faulty"] is not None),
              dict(harness="c01.d2", bound=0), dict(harness="c01.d3", bound=0), dict(harness="c01.lines", bound=1), dict(harness="c01.narrow", bound=3),
              dict(harness="c01.falsy", bound=0)],
    "thorough": [dict(harness="c01.d1", bound=3), dict(harness="c01.d2", bound=2, select=lambda p: p["nthreads"] == 2),
                 dict(harness="c01.d2", bound=1), dict(harness="c01.d3", bound=1, select=lambda p: p["scripts"] == ("Eok", "ok")),
                 dict(harness="c01.d3", bound=0), dict(harness="c01.d4", bound=0), dict(harness="c01.d5", bound=0),
                 dict(harness="c01.d6", bound=0), dict(harness="c01.lines", bound=2), dict(harness="c01.narrow", bound=3),
                 dict(harness="c01.falsy", bound=1)],
}

"""C06 - cancel: True means the work never starts; it stops retries; it propagates."""
from mc.harness import harness, oracle
from mc.kit import E, E2, ProbeFuture, ManualExecutor, Script, snapshot, brief
from more_executors import Executors
from more_executors._impl import futures as F
from .common import Stack, LAYERS

STACKS = [(l,) for l in LAYERS] + [("retry", "map"), ("map", "retry"), ("throttle", "retry"), ("retry", "poll"),
                                    ("retry", "timeout"), ("retry", "flat_map")]


def _params():
    out = []
    for layers in STACKS:
        for ncan in (1, 2):
            for when in (0.0, 0.5, 1.0, 1.5):
                if when > 0 and "retry" not in layers and "poll" not in layers:
                    continue
                for script in (("E", "E", "ok"), ("ok",)):
                    if script[0] == "E" and "retry" not in layers:
                        continue
                    if when > 0 and "retry" in layers and script == ("ok",):
                        continue
                    if ncan == 2 and when > 0:
                        continue
                    out.append(dict(layers=layers, ncan=ncan, when=when, script=script, occ=True))
                    if "throttle" in layers:
                        # no occupant: the hand-over to the delegate races with the cancel
                        out.append(dict(layers=layers, ncan=ncan, when=when, script=script, occ=False))
    return out


def body(mc, p):
    layers = p["layers"]
    opts = dict(sleep=1.0, count=1)
    if "poll" in layers:
        pos = layers.index("poll")
        # polls keep the future in the polling stage until t >= 1 so a cancel can land there
        def poll_fn(ds):
            if mc.clock >= 1.0:
                for d in ds:
                    d.yield_result(("P", d.result))
        opts["poll_fn@%d" % pos] = [("call", poll_fn)]
        opts["poll_interval"] = 1.0
    st = Stack(mc, layers, base="manual", workers=1, opts=opts)
    ex, base = st.top, st.base
    OUT = {"ok": ("ret", "ok"), "E": ("raise", E)}
    fn = st.script("fn", [OUT[o] for o in p["script"]])
    blocker_release = [False]
    nsub = 2 if ("throttle" in layers and p["occ"]) else 1
    fs = []
    if nsub == 2:
        # occupy the single slot so that the target stays queued in the throttle
        def occupy(*_a):
            mc.wait_until(lambda: blocker_release[0])
            return "occ"
        occ = ex.submit(occupy, "occ")
    f = ex.submit(fn, "tgt")
    f.add_done_callback(lambda _f: mc.emit("derived.done", snap=snapshot(_f)))

    def canceller(k):
        def run():
            if p["when"]:
                mc.sleep(p["when"])
            for n in range(2 if p["ncan"] == 1 and k == 0 and p["when"] == 0 else 1):
                mc.call("cancel", f.cancel)
        return run
    for k in range(p["ncan"]):
        mc.spawn(canceller(k), "can%d" % k)
    if nsub == 2:
        def releaser():
            mc.sleep(3)
            blocker_release[0] = True
        mc.spawn(releaser, "rel", client=False)
    mc.sleep(20)
    mc.observe(final=snapshot(f))


def submission_of(e):
    a = e.get("args")
    return a[0] if a else None


def check(x):
    p = x.p
    if not x.require(x.end == "done" and "final" in x.obs, "bad-ending", end=x.end):
        return
    log = x.log
    final = x.obs["final"]
    calls = [e for e in log if e["kind"] == "call" and e["op"] == "cancel"]
    rets = [e for e in log if e["kind"] in ("ret", "raise") and e["op"] == "cancel"]
    x.require(all(e["kind"] == "ret" and isinstance(e["val"], bool) for e in rets), "cancel-raised-or-nonbool")
    # pair calls and returns per thread, in order
    pairs = []
    for th in set(e["th"] for e in calls):
        cs = [e for e in calls if e["th"] == th]
        rs = [e for e in rets if e["th"] == th]
        pairs += list(zip(cs, rs))
    fn_starts = [e for e in log if e["kind"] == "fn.start" and e["fn"] == "fn"]
    fn_ends = [e for e in log if e["kind"] == "fn.end" and e["fn"] == "fn"]
    subs = [e for e in log if e["kind"] == "base.submit" and submission_of(e) == "tgt"]
    is_retry = "retry" in p["layers"]
    for c, r in pairs:
        if r["kind"] != "ret":
            continue
        if r["val"] is True:
            x.require(final[0] == "cancelled", "true-cancel-not-sticky", final=final[0])
            x.require(not any(s["seq"] > r["seq"] for s in fn_starts), "started-after-true-cancel")
            x.require(not any(s["seq"] > r["seq"] for s in subs), "submitted-after-true-cancel")
        # the callable was running during the whole cancel() call (its linearisation point is
        # somewhere inside [call, return])
        running = [s for s in fn_starts if s["seq"] < c["seq"]
                   and not any(e["k"] == s["k"] and e["seq"] < r["seq"] for e in fn_ends)]
        if running:
            x.require(r["val"] is False, "cancel-true-while-running")
            # the future completes normally with that attempt's outcome
            k = running[0]["k"]
            end = [e for e in fn_ends if e["k"] == k]
            if end and not any(q["val"] is True for _, q in pairs if q["kind"] == "ret"):
                want = end[0]["out"]
                got = final
                if want[0] == "ok":
                    # upper layers may map the value: compare the state only
                    x.require(got[0] == "ok", "running-cancel-lost-outcome", got=got[0], want="ok")
                else:
                    x.require(got[0] == "err", "running-cancel-lost-outcome", got=got[0], want="err")
        if is_retry:
            late = [s for s in subs if s["seq"] > r["seq"]]
            x.require(not late, "retry-submit-after-cancel", ret=r["val"],
                      detail="base.submit at seq %s after cancel returned at %s" % ([s["seq"] for s in late], r["seq"]))
        # propagation to the innermost pending work
        queued = []
        for s in subs:
            if s["seq"] < c["seq"]:
                i = s["i"]
                started = any(e["kind"] == "base.start" and e["i"] == i and e["seq"] < r["seq"] for e in log)
                gone = any(e["kind"] == "probe.cancel" and e["f"] == "b%d" % i and e["ret"] and e["seq"] < c["seq"] for e in log)
                if not started and not gone:
                    queued.append(i)
        for i in queued:
            hit = any(e["kind"] == "probe.cancel" and e["f"] == "b%d" % i and c["seq"] < e["seq"] < r["seq"] for e in log)
            already_done = any(d["kind"] == "derived.done" and d["seq"] < c["seq"] for d in log)
            if not already_done:
                x.require(hit, "cancel-not-forwarded", via="throttle" if "throttle" in p["layers"] else "+".join(p["layers"]),
                          detail="delegate future b%d was queued during cancel() [%d..%d] but got no cancel()" % (i, c["seq"], r["seq"]))
    for name, exc in x.deaths:
        x.require(False, "thread-died", thread=name.split("-")[0], exc=exc[0], detail=exc[2][-500:])


harness("c06.cancel", prop="C06", traced=(), horizon=60, params=_params())(body)
oracle("c06.cancel")(check)
harness("c06.cancel.lines", prop="C06", traced=("retry", "common", "throttle", "map", "poll"), horizon=60,
        params=[q for q in _params() if len(q["layers"]) == 1 or q["layers"] in (("retry", "map"), ("throttle", "retry"))])(body)
oracle("c06.cancel.lines")(check)


# ------------------------------------------------------------------ combinators / flat_map inner
COMB = ("zip", "and", "or", "f_map", "f_flat_map", "nocancel", "sequence", "flat_inner", "f_timeout", "proxy")


def _cparams():
    return [dict(comb=c, done_first=d) for c in COMB for d in (False, True)]


def cbody(mc, p):
    c = p["comb"]
    ins = [ProbeFuture(mc, "in%d" % i) for i in range(2 if c in ("zip", "and", "or", "sequence") else 1)]
    shield = None
    if c == "zip":
        out = F.f_zip(*ins)
    elif c == "and":
        out = F.f_and(*ins)
    elif c == "or":
        out = F.f_or(*ins)
    elif c == "sequence":
        out = F.f_sequence(ins)
    elif c == "f_map":
        out = F.f_map(ins[0], lambda v: v)
    elif c == "f_flat_map":
        out = F.f_flat_map(ins[0], lambda v: F.f_return(v))
    elif c == "f_timeout":
        out = F.f_timeout(ins[0], 1000.0)
    elif c == "proxy":
        out = F.f_proxy(ins[0])
    elif c == "nocancel":
        out = F.f_zip(F.f_nocancel(ins[0]))
    elif c == "flat_inner":
        src = F.f_return("s")
        out = F.f_flat_map(src, lambda v: ins[0])

    def completer():
        if p["done_first"] and len(ins) > 1:
            if ins[1].set_running_or_notify_cancel():
                ins[1].set_result("v1")
            mc.emit("in1.done")

    def canceller():
        mc.call("cancel", out.cancel)
    mc.spawn(completer, "comp")
    mc.spawn(canceller, "can")
    mc.sleep(5)
    mc.observe(out=snapshot(out), ins=tuple(f._state for f in ins), ncancel=tuple(f.cancel_calls for f in ins))


def ccheck(x):
    p = x.p
    if not x.require(x.end == "done" and "out" in x.obs, "bad-ending", end=x.end):
        return
    r = [e for e in x.log if e["kind"] == "ret" and e["op"] == "cancel"]
    if not x.require(len(r) == 1 and isinstance(r[0]["val"], bool), "cancel-raised-or-nonbool"):
        return
    n = x.obs["ncancel"]
    if p["comb"] == "nocancel":
        x.require(n[0] == 0, "cancel-through-nocancel")
        x.require(x.obs["ins"][0] == "PENDING", "nocancel-input-cancelled")
        return
    if r[0]["val"] is True:
        x.require(x.obs["out"][0] == "cancelled", "true-cancel-not-sticky")
        for i, st in enumerate(x.obs["ins"]):
            was_done = p["done_first"] and i == 1 and any(e["kind"] == "in1.done" and e["seq"] < r[0]["seq"] for e in x.log)
            if not was_done:
                x.require(n[i] >= 1, "cancel-not-forwarded", comb=p["comb"], i=i)


harness("c06.comb", prop="C06", traced=("futures.zip", "futures.bool", "futures.base", "map", "common"), horizon=20,
        params=_cparams())(cbody)
oracle("c06.comb")(ccheck)

PLAN = {
    "quick": [dict(harness="c06.cancel", bound=2), dict(harness="c06.cancel.lines", bound=1),
              # the cell in which the thorough tier found cancel() raising (two cancels around the end of a
              # failed attempt): kept at d=2 in the quick tier as a regression
              dict(harness="c06.cancel.lines", bound=2,
                   select=lambda p: p["layers"] == ("retry",) and p["ncan"] == 1 and p["when"] == 0.0 and p["script"] == ("E", "E", "ok")),
              dict(harness="c06.comb", bound=2)],
    # thorough = quick + one more deviation on the single-layer cells and the one-canceller two-layer cells (tools/size_plan.py:
    # the extra deviation over all 73 / 45 cells is ~2 h on 16 cores)
    "thorough": [dict(harness="c06.cancel", bound=2),
                 dict(harness="c06.cancel", bound=3, select=lambda p: len(p["layers"]) == 1 or (p["ncan"] == 1 and p["when"] in (0.0, 1.0))),
                 dict(harness="c06.cancel.lines", bound=1),
                 dict(harness="c06.cancel.lines", bound=2, select=lambda p: len(p["layers"]) == 1),
                 dict(harness="c06.comb", bound=3)],
}

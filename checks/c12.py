"""C12 - worker threads and references are reclaimed; pending futures keep working."""
import gc
import weakref

from mc.harness import harness, oracle
from mc.kit import E, ManualExecutor, snapshot
from more_executors import Executors
from more_executors._impl import futures as F

KINDS = ("retry", "poll", "throttle", "timeout")
PREFIX = {"retry": "RetryExecutor", "poll": "PollExecutor", "throttle": "ThrottleExecutor", "timeout": "TimeoutExecutor"}


def make(kind, base, retry_sleep=1.0):
    if kind == "retry":
        return Executors.with_retry(base, max_attempts=3, sleep=retry_sleep, exception_base=E)
    if kind == "poll":
        def poll_fn(ds):
            for d in ds:
                d.yield_result(d.result)
        return Executors.with_poll(base, poll_fn, default_interval=1.0)
    if kind == "throttle":
        return Executors.with_throttle(base, 1)
    if kind == "timeout":
        return Executors.with_timeout(base, 5.0)
    if kind == "map":
        return Executors.with_map(base, lambda v: v)
    if kind == "flat_map":
        return Executors.with_flat_map(base, lambda v: F.f_return(v))
    if kind == "cancel_on_shutdown":
        return Executors.with_cancel_on_shutdown(base)


# ------------------------------------------------------------------ thread exit
def _eparams():
    out = []
    for kind in KINDS:
        for action in ("shutdown", "shutdown_nowait", "shutdown_nowait_kept", "drop", "atexit"):
            for workload in ("idle", "waking", "pending", "done"):
                if workload == "pending" and action != "drop":
                    continue
                out.append(dict(kind=kind, action=action, workload=workload))
        if kind == "throttle":
            # a future cancelled while still queued is kept by the user; the executor is dropped
            out.append(dict(kind=kind, action="drop", workload="cancelled_queued_kept"))
        if kind == "retry":
            out.append(dict(kind=kind, action="shutdown_nowait_kept", workload="between_retries"))
            # the executor (and its future) is dropped while the worker sleeps out a long back-off
            out.append(dict(kind=kind, action="drop", workload="between_retries"))
            out.append(dict(kind=kind, action="atexit", workload="between_retries"))
            out.append(dict(kind=kind, action="shutdown", workload="between_retries"))
    return out


def ebody(mc, p):
    n0 = len(mc.s.threads)
    base = ManualExecutor(mc, mode="hold", forget=True)
    box = {"ex": make(p["kind"], base, retry_sleep=40.0 if p["workload"] == "between_retries" else 1.0)}
    wl = p["workload"]
    fut = {}
    if wl == "cancelled_queued_kept":
        occ = box["ex"].submit(lambda: "occ")         # occupies the single slot
        q = box["ex"].submit(lambda: "queued")
        mc.sleep(0.25)
        mc.emit("cancel.queued", r=q.cancel())
        fut["kept"] = q                               # the user keeps the cancelled future
        base.complete(0, "occ")
        mc.sleep(0.25)
        del occ, q
    if wl == "between_retries":
        f = box["ex"].submit(lambda: "v")
        mc.sleep(0.25)
        base.complete(0, exc=E("retry me"))          # first attempt fails: retry due in 40 s
        mc.sleep(0.25)
        del f
    if wl in ("pending", "done", "waking"):
        f = box["ex"].submit(lambda: "v")
        if wl == "done":
            mc.sleep(0.25)
            base.complete(0, "v")
            mc.sleep(0.25)
            mc.emit("warm", s=snapshot(f))
            del f
        elif wl == "pending":
            fut["f"] = f
            del f
        else:
            # the worker has just been woken and is iterating while the action happens
            del f

    def actor():
        a = p["action"]
        if a == "shutdown":
            box.pop("ex").shutdown(True)
        elif a == "shutdown_nowait":
            box.pop("ex").shutdown(False)
        elif a == "shutdown_nowait_kept":
            box["ex"].shutdown(False)          # the user keeps the executor object afterwards
        elif a == "drop":
            box.pop("ex")                  # the last user reference goes away here
        elif a == "atexit":
            mc.run_atexit()
        mc.emit("action.done")
    mc.spawn(actor, "actor")
    if wl == "waking":
        def completer():
            mc.sleep(1.0)
            base.complete(0, "v")
        mc.spawn(completer, "comp", client=False)
    if wl == "pending":
        def completer():
            mc.sleep(2.0)
            base.complete(0, "v")
            mc.emit("completed")
        mc.spawn(completer, "comp", client=False)
    mc.sleep(10)
    if wl == "pending":
        mc.emit("pending.final", s=snapshot(fut["f"]))
        fut.clear()
        mc.sleep(1)
    gc.collect()
    mc.sleep(20)
    alive = sorted(t.name for t in mc.s.threads[n0:] if t.name.startswith(PREFIX[p["kind"]]) and not t.finished)
    mc.observe(alive=tuple(alive))
    box.clear()


def echeck(x):
    p = x.p
    if not x.require(x.end == "done" and "alive" in x.obs, "bad-ending", end=x.end):
        return
    x.require(not x.obs["alive"], "worker-thread-not-reclaimed", kind=p["kind"], action=p["action"], workload=p["workload"],
              detail=repr(x.obs["alive"]))
    if p["workload"] == "pending":
        e = x.events("pending.final")
        x.require(e and e[0]["s"] == ("ok", "v"), "pending-future-not-completed-after-drop", kind=p["kind"],
                  detail=repr(e[0]["s"] if e else None))
    for name, exc in x.deaths:
        x.require(False, "thread-died", thread=name.split("-")[0], exc=exc[0], detail=exc[2][-400:])


harness("c12.exit", prop="C12", traced=(), horizon=60, params=_eparams())(ebody)
oracle("c12.exit")(echeck)
harness("c12.exit.lines", prop="C12", traced=("retry", "poll", "throttle", "timeout", "event"), horizon=60,
        params=_eparams())(ebody)
oracle("c12.exit.lines")(echeck)


# ------------------------------------------------------------------ reference retention
HIST = ("completed", "failed", "cancelled_queued", "cancelled_in_delegate", "timed_out", "retried", "cancelled_between_retries")
RKINDS = KINDS + ("map", "flat_map", "cancel_on_shutdown", "f_timeout", "f_zip", "f_map")


class Fn(object):
    def __init__(self, res, fail=0):
        self.res = res
        self.fail = fail
        self.n = 0

    def __call__(self, arg, kw=None):
        self.n += 1
        if self.n <= self.fail:
            raise E("fail")
        return self.res


class Obj(object):
    pass


def _rparams():
    out = []
    for kind in RKINDS:
        for hist in HIST:
            if hist == "timed_out" and kind not in ("timeout", "f_timeout"):
                continue
            if hist in ("retried", "cancelled_between_retries") and kind != "retry":
                continue
            if hist == "cancelled_queued" and kind not in ("throttle", "retry"):
                continue
            if kind in ("f_zip", "f_map", "f_timeout") and hist in ("cancelled_queued",):
                continue
            out.append(dict(kind=kind, hist=hist))
    return out


def rbody(mc, p):
    kind, hist = p["kind"], p["hist"]
    base = ManualExecutor(mc, mode="hold", forget=True)
    refs = {}

    def scenario():
        """everything created here dies with this frame, except through the library"""
        res, arg, kwv = Obj(), Obj(), Obj()
        fn = Fn(res, fail=1 if hist in ("failed", "retried", "cancelled_between_retries") else 0)
        if kind in ("f_zip", "f_map", "f_timeout"):
            src = base.submit(fn, arg, kw=kwv)
            f = {"f_zip": lambda: F.f_zip(src, F.f_return(1)), "f_map": lambda: F.f_map(src, lambda v: v),
                 "f_timeout": lambda: F.f_timeout(src, 2.0)}[kind]()
            ex = None
        else:
            ex = make(kind, base, retry_sleep=40.0 if hist == "cancelled_between_retries" else 1.0)
            if hist == "cancelled_queued" and kind == "throttle":
                blocker = ex.submit(lambda: None)
            f = ex.submit(fn, arg, kw=kwv)
        refs.update(fn=weakref.ref(fn), arg=weakref.ref(arg), kw=weakref.ref(kwv), res=weakref.ref(res), fut=weakref.ref(f))
        if hist == "cancelled_between_retries":
            mc.sleep(0.25)
            it = base.items[0]
            try:
                it.fn(*it.args, **it.kwargs)
            except Exception as e:
                base.complete(0, exc=e)
                e = None
            it.fn = it.args = it.kwargs = it.future = None
            del it
            mc.sleep(0.5)                      # the worker now sleeps out the 40 s back-off
            mc.emit("cancel", r=f.cancel())
        elif hist == "cancelled_queued":
            mc.emit("cancel", r=f.cancel())
        elif hist == "cancelled_in_delegate":
            mc.sleep(0.25)           # handed to the delegate (queued there, not running)
            mc.emit("cancel", r=f.cancel())
        elif hist == "timed_out":
            mc.sleep(6.0)
        else:
            mc.sleep(0.25)
            # run every attempt the base has received
            k = 0
            while k < len(base.items):
                it = base.items[k]
                if it.state == "queued":
                    fnk, a, kws = it.fn, it.args, it.kwargs
                    try:
                        r = fnk(*a, **kws)
                    except Exception as e:
                        base.complete(k, exc=e)
                        e = None
                    else:
                        base.complete(k, r)
                        r = None
                    del fnk, a, kws
                    it.fn = it.args = it.kwargs = it.future = None
                    mc.sleep(1.5)
                k += 1
            del it
        mc.sleep(0.5)
        mc.emit("final", s=snapshot(f)[0])
        base.forget_finished()
        return ex

    ex = scenario()
    mc.sleep(2)                     # quiescence: workers drop their transient references
    gc.collect()
    alive = sorted(k for k, r in refs.items() if r() is not None)
    detail = []
    for k in alive:
        o = refs[k]()
        rr = [type(q).__name__ for q in gc.get_referrers(o) if q is not refs and not isinstance(q, type(lambda: 0))][:6]
        detail.append("%s<-%s" % (k, ",".join(rr)))
        del o
    mc.observe(alive=tuple(alive), detail=tuple(detail), executor_alive=ex is not None)
    if ex is not None:
        ex.shutdown(False)


def rcheck(x):
    p = x.p
    if not x.require(x.end == "done" and "alive" in x.obs, "bad-ending", end=x.end):
        return
    x.require(not x.obs["alive"], "reference-retained", kind=p["kind"], hist=p["hist"], what="+".join(x.obs["alive"]),
              detail=repr(x.obs["detail"]))
    for name, exc in x.deaths:
        x.require(False, "thread-died", thread=name.split("-")[0], exc=exc[0], detail=exc[2][-400:])


harness("c12.retain", prop="C12", traced=(), horizon=60, params=_rparams())(rbody)
oracle("c12.retain")(rcheck)

# ------------------------------------------------------------------ retention when completion races a cancel
def _xparams():
    return [dict(kind=k) for k in ("poll", "retry", "throttle", "timeout", "map")]


def xbody(mc, p):
    kind = p["kind"]
    base = ManualExecutor(mc, mode="hold", forget=True)
    refs = {}
    box = {}

    def scenario():
        res, arg = Obj(), Obj()
        fn = Fn(res)
        ex = make(kind, base)
        f = ex.submit(fn, arg)
        refs.update(fn=weakref.ref(fn), arg=weakref.ref(arg), res=weakref.ref(res), fut=weakref.ref(f))
        box["f"] = f
        box["res"] = res
        return ex

    ex = scenario()
    mc.sleep(0.25)

    def completer():
        it = base.items[0]
        r = box.pop("res")
        base.complete(0, r)
        del r, it

    def canceller():
        f = box.pop("f")
        mc.emit("cancel", r=f.cancel())
        del f
    mc.spawn(completer, "comp")
    mc.spawn(canceller, "can")
    mc.sleep(3)
    base.forget_finished()
    gc.collect()
    mc.sleep(1)
    alive = sorted(k for k, r in refs.items() if r() is not None)
    detail = []
    for k in alive:
        o = refs[k]()
        rr = [type(q).__name__ for q in gc.get_referrers(o) if q is not refs and not isinstance(q, type(lambda: 0))][:6]
        detail.append("%s<-%s" % (k, ",".join(rr)))
        del o
    mc.observe(alive=tuple(alive), detail=tuple(detail))
    ex.shutdown(False)


def xcheck(x):
    p = x.p
    if not x.require(x.end == "done" and "alive" in x.obs, "bad-ending", end=x.end):
        return
    x.require(not x.obs["alive"], "reference-retained", kind=p["kind"], hist="cancel-racing-completion",
              what="+".join(x.obs["alive"]), detail=repr(x.obs["detail"]))
    for name, exc in x.deaths:
        x.require(False, "thread-died", thread=name.split("-")[0], exc=exc[0], detail=exc[2][-400:])


harness("c12.retain.race", prop="C12", traced=("poll", "retry", "throttle", "timeout", "map", "common"), horizon=30,
        params=_xparams())(xbody)
oracle("c12.retain.race")(xcheck)

PLAN = {
    "quick": [dict(harness="c12.exit", bound=3), dict(harness="c12.exit.lines", bound=2), dict(harness="c12.retain", bound=2),
              dict(harness="c12.retain.race", bound=2)],
    "thorough": [dict(harness="c12.exit", bound=4), dict(harness="c12.exit.lines", bound=3), dict(harness="c12.retain", bound=3),
                 dict(harness="c12.retain.race", bound=3)],
}

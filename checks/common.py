"""Shared pieces of the per-property harnesses: stack builder, layer configurations."""
from mc.kit import ManualExecutor, Script, E, E2, brief, snapshot
from more_executors import Executors
from more_executors._impl.futures import f_return

LAYERS = ("map", "flat_map", "retry", "poll", "throttle", "timeout", "cancel_on_shutdown")
ABBR = dict(map="M", flat_map="F", retry="R", poll="P", throttle="T", timeout="O", cancel_on_shutdown="C")


def stack_name(layers, base):
    return base + ":" + "".join(ABBR[l] for l in layers)


class Stack(object):
    """An executor chain built over a base, with every user function scripted."""

    def __init__(self, mc, layers, base="manual", workers=1, opts=None, name=None):
        self.mc = mc
        self.layers = tuple(layers)
        self.opts = opts or {}
        self.base_kind = base
        self.user = {}          # site name -> Script
        self.execs = []         # bottom .. top
        self.base = None
        self.worker_threads = []
        o = self.opts
        kw = {}
        if name:
            kw["name"] = name
        if base == "manual":
            self.base = ManualExecutor(mc, mode="manual")
            ex = self.base
            for w in range(workers):
                self.worker_threads.append(mc.spawn(self.base.worker_loop, "worker%d" % w, client=False))
        elif base == "inline":
            self.base = ManualExecutor(mc, mode="inline")
            ex = self.base
        elif base == "hold":
            self.base = ManualExecutor(mc, mode="hold")
            ex = self.base
        elif base == "sync":
            ex = Executors.sync(**kw)
        elif base == "tp":
            ex = Executors.thread_pool(max_workers=workers, **kw)
        else:
            raise ValueError(base)
        self.bottom = ex
        self.execs.append(ex)
        for pos, layer in enumerate(self.layers):
            ex = self._add(ex, layer, pos)
            self.execs.append(ex)
        self.top = ex

    def script(self, site, entries):
        s = Script(self.mc, site, entries)
        self.user[site] = s
        return s

    def _add(self, ex, layer, pos):
        o = self.opts
        mc = self.mc
        tag = "%s%d" % (ABBR[layer], pos)
        if layer == "map":
            fn = self.script("map_fn@%d" % pos, o.get("map_fn@%d" % pos, [("call", lambda x, _t=tag: (_t, x))]))
            efn_entries = o.get("error_fn@%d" % pos)
            if efn_entries is not None:
                efn = self.script("error_fn@%d" % pos, efn_entries)
                return Executors.with_map(ex, fn, error_fn=efn)
            return Executors.with_map(ex, fn)
        if layer == "flat_map":
            fn = self.script("flat_fn@%d" % pos,
                             o.get("flat_fn@%d" % pos, [("call", lambda x, _t=tag: f_return((_t, x)))]))
            efn_entries = o.get("error_fn@%d" % pos)
            if efn_entries is not None:
                efn = self.script("error_fn@%d" % pos, efn_entries)
                return Executors.with_flat_map(ex, fn, error_fn=efn)
            return Executors.with_flat_map(ex, fn)
        if layer == "retry":
            return Executors.with_retry(ex, max_attempts=o.get("max_attempts", 3), sleep=o.get("sleep", 1.0),
                                 exponent=o.get("exponent", 1.0),
                                 exception_base=o.get("exception_base", E))
        if layer == "poll":
            def default_poll(ds):
                for d in ds:
                    d.yield_result(("P%d" % pos, d.result) if o.get("poll_tag", True) else d.result)
            fn = self.script("poll_fn@%d" % pos, o.get("poll_fn@%d" % pos, [("call", default_poll)]))
            cfn_entries = o.get("cancel_fn@%d" % pos)
            cfn = self.script("cancel_fn@%d" % pos, cfn_entries) if cfn_entries is not None else None
            return Executors.with_poll(ex, fn, cancel_fn=cfn, default_interval=o.get("poll_interval", 5.0))
        if layer == "throttle":
            cnt = o.get("count", 2)
            return Executors.with_throttle(ex, cnt, block=o.get("block", False))
        if layer == "timeout":
            return Executors.with_timeout(ex, o.get("timeout", 1000.0))
        if layer == "cancel_on_shutdown":
            return Executors.with_cancel_on_shutdown(ex)
        raise ValueError(layer)

    def shutdown(self, wait=True):
        self.top.shutdown(wait)
        if self.base is not None and self.base.workers:
            self.base.down = True


def ref_stack(layers, outcome):
    """Sequential reference of the default user functions of Stack: outcome is ('ok', v) or
    ('err', exc_obj); returns the outcome the top future must have.  Retry is applied by the
    caller (the callable script defines the per-attempt outcomes)."""
    kind, v = outcome
    for pos, layer in enumerate(layers):
        tag = "%s%d" % (ABBR[layer], pos)
        if kind == "ok":
            if layer in ("map", "flat_map"):
                v = (tag, v)
            elif layer == "poll":
                v = (tag, v)
    return (kind, v)

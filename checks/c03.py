"""C03 - no future is lost: once the underlying work is finished, the future finishes,
and no later than the virtual time implied by the configuration."""
from mc.harness import harness, oracle
from mc.kit import E, E2, ProbeFuture, StubbornFuture, snapshot, brief
from mc.sched import EPS
from more_executors import Executors
from more_executors._impl import futures as F
from .common import Stack, LAYERS

TOL = 8 * EPS
ENDINGS = ("value", "exception", "ext_cancel", "derived_cancel")


def _params():
    out = []
    for layer in LAYERS:
        for ending in ENDINGS:
            variants = [{}]
            if layer == "retry":
                variants = [dict(sleep=0.0, fails=1), dict(sleep=1.0, fails=1), dict(sleep=1.0, fails=0)]
            if layer == "poll":
                variants = [dict(sight=1), dict(sight=2)]
            if layer == "flat_map":
                variants = [dict(stage="outer"), dict(stage="inner")]
            if layer == "throttle":
                variants = [dict(count=1, njobs=2), dict(count=2, njobs=1)]
            for v in variants:
                for warm in (False, True):
                    if warm and v.get("stage") == "inner":
                        continue
                    d = dict(layer=layer, ending=ending, warm=warm)
                    d.update(v)
                    out.append(d)
    return out


def body(mc, p):
    layer = p["layer"]
    opts = {}
    if layer == "retry":
        opts["sleep"] = p["sleep"]
    sight = p.get("sight", 1)
    if layer == "poll":
        seen = {}

        def poll_fn(ds):
            for d in ds:
                k = seen.get(d.result, 0) + 1
                seen[d.result] = k
                if k >= sight:
                    d.yield_result(("P", d.result))
        opts["poll_fn@0"] = [("call", poll_fn)]
    inner = ProbeFuture(mc, "inner")
    if layer == "flat_map" and p.get("stage") == "inner":
        opts["flat_fn@0"] = [("call", lambda x: inner)]
    if layer == "throttle":
        opts["count"] = p["count"]
    st = Stack(mc, (layer,), base="manual", workers=0, opts=opts)
    ex = st.top
    base = st.base
    ending = p["ending"]

    if p["warm"]:
        # one earlier submission has already completed on the same executor
        w = ex.submit(lambda: "warm")
        mc.spawn(lambda: base.run(0), "warmrun", client=True)
        mc.wait_until(lambda: w.done(), timeout=15)
        mc.emit("warm.done", ok=w.done())
    first = len(base.items)

    fails = p.get("fails", 0)
    if layer == "flat_map" and p.get("stage") == "inner":
        script = [("ret", "v")]
    elif ending == "exception":
        script = [("raise", E)] if layer == "retry" else [("raise", E2)]
    elif layer == "retry":
        script = [("raise", E)] * fails + [("ret", "v")]
    else:
        script = [("ret", "v")]
    call = st.script("callable", script)

    fs = []
    njobs = p.get("njobs", 1)
    for j in range(njobs):
        f = ex.submit(call)
        f.label = "f%d" % j
        f.add_done_callback(lambda _f, j=j: mc.emit("derived.done", f="f%d" % j, snap=snapshot(_f)))
        fs.append(f)
    target = fs[-1]

    inner_stage = layer == "flat_map" and p.get("stage") == "inner"

    def worker():
        # runs every attempt the base receives, in order
        i = first
        while True:
            mc.wait_until(lambda: len(base.items) > i)
            base.run(i)
            i += 1

    def finisher():
        # ends the inner (flat-mapped) future
        mc.wait_until(lambda: any(e["kind"] == "fn.end" and e["fn"].startswith("flat_fn") for e in mc.s.log))
        if ending in ("value", "derived_cancel"):
            inner.set_running_or_notify_cancel() and inner.set_result("iv")
        elif ending == "exception":
            inner.set_running_or_notify_cancel() and inner.set_exception(E2("inner"))
        elif ending == "ext_cancel":
            mc.call("ext.cancel", inner.cancel)
            inner.set_running_or_notify_cancel()
        mc.emit("inner.resolved")

    def ext_canceller():
        mc.wait_until(lambda: len(base.items) > first + njobs - 1)
        mc.call("ext.cancel", base.items[first + njobs - 1].future.cancel)

    def derived_canceller():
        mc.call("derived.cancel", target.cancel)

    mc.spawn(worker, "worker", client=False)
    if inner_stage:
        mc.spawn(finisher, "finisher", client=False)
    elif ending == "ext_cancel":
        mc.spawn(ext_canceller, "extc")
    if ending == "derived_cancel":
        mc.spawn(derived_canceller, "derc")
    mc.sleep(40)
    mc.observe(derived=tuple(snapshot(f) for f in fs),
               base=tuple((it.idx, it.future._state) for it in base.items[first:]),
               inner=inner._state)


def check(x):
    p = x.p
    layer = p["layer"]
    derived = x.obs.get("derived", ())
    base = x.obs.get("base", ())
    x.require(x.end == "done", "bad-ending", end=x.end, layer=layer)
    if not derived:
        x.require(False, "no-observation", end=x.end)
        return
    inner_stage = layer == "flat_map" and p.get("stage") == "inner"
    # ---- (1) nothing pending at quiescence once the underlying work is terminal
    base_terminal = all(s in ("FINISHED", "CANCELLED", "CANCELLED_AND_NOTIFIED") for _, s in base)
    inner_terminal = (not inner_stage) or x.obs["inner"] in ("FINISHED", "CANCELLED", "CANCELLED_AND_NOTIFIED")
    for j, (state, val) in enumerate(derived):
        if state == "pending" and base_terminal and inner_terminal:
            ext = any(e["kind"] == "ret" and e["op"] == "ext.cancel" and e["val"] is True for e in x.log)
            x.require(False, "derived-pending-after-work-finished",
                      detail="derived f%d pending; base=%r inner=%s" % (j, base, x.obs["inner"]),
                      layer=layer, stage=p.get("stage", "-"),
                      cause="inner-cancelled-externally" if ext else p["ending"])
    # ---- (2) time bound: completion does not wait for a fallback timer
    dd = {e["f"]: e for e in x.events("derived.done")}
    ends = [e for e in x.log if e["kind"] == "base.end"]
    if p["ending"] in ("value", "exception"):
        for j in range(len(derived)):
            e = dd.get("f%d" % j)
            if e is None:
                continue
            if inner_stage:
                src = [q for q in x.log if q["kind"] == "inner.resolved"]
            else:
                src = ends
            if not src:
                continue
            t_work = max(q["t"] for q in src if q["seq"] < e["seq"]) if any(q["seq"] < e["seq"] for q in src) else None
            if t_work is None:
                continue
            allow = TOL
            if layer == "poll":
                allow += (p["sight"] - 1) * 5.0
            x.require(e["t"] <= t_work + allow, "late-completion", layer=layer,
                      detail="derived done at %r, work finished at %r" % (e["t"], t_work),
                      lateness=round(e["t"] - t_work, 3))
    if layer == "retry":
        # each re-submission happens sleep after the previous attempt ended
        subs = [e for e in x.log if e["kind"] == "base.submit" and e["i"] >= (1 if p["warm"] else 0)]
        for a, b in zip(subs, subs[1:]):
            prev_end = [q for q in ends if q["i"] == a["i"]]
            if prev_end:
                x.require(b["t"] <= prev_end[0]["t"] + p["sleep"] + TOL, "late-retry",
                          detail="attempt submitted at %r, previous ended %r" % (b["t"], prev_end[0]["t"]),
                          lateness=round(b["t"] - prev_end[0]["t"] - p["sleep"], 3))
    if layer == "throttle":
        # the second job is handed over when the first one finishes (count=1) or at once
        subs = [e for e in x.log if e["kind"] == "base.submit" and e["i"] >= (1 if p["warm"] else 0)]
        t0 = [e for e in x.log if e["kind"] == "fn.start"]
        for k, s in enumerate(subs):
            if p["count"] == 1 and k >= 1:
                prev = [q for q in ends if q["i"] == subs[k - 1]["i"]]
                if prev:
                    x.require(s["t"] <= prev[0]["t"] + TOL, "late-handover",
                              lateness=round(s["t"] - prev[0]["t"], 3))
            else:
                start = max([q["t"] for q in x.log if q["kind"] == "warm.done"] + [0.0])
                x.require(s["t"] <= start + TOL, "late-handover", lateness=round(s["t"] - start, 3))
    for name, exc in x.deaths:
        if name not in ("worker",):
            x.require(False, "thread-died", thread=name.split("-")[0], exc=exc[0], detail=exc[2][-500:])


harness("c03.layers", prop="C03", traced=(), horizon=80, params=_params())(body)
oracle("c03.layers")(check)
for _l in ("retry", "poll", "throttle", "timeout", "map"):
    harness("c03.lines.%s" % _l, prop="C03", traced=(_l, "event"), horizon=80,
            params=[q for q in _params() if q["layer"] == _l])(body)
    oracle("c03.lines.%s" % _l)(check)


# ------------------------------------------------------------------ combinators
COMB = ("zip", "and", "or", "sequence", "nocancel", "proxy", "f_map", "f_flat_map", "f_timeout", "apply")
OUTC = ("value", "falsy", "exception", "cancel", "refuse_then_cancel")


def _cparams():
    out = []
    for c in COMB:
        n = 2 if c in ("zip", "and", "or", "sequence", "apply") else 1
        if n == 1:
            for a in OUTC:
                out.append(dict(comb=c, outs=(a,)))
        else:
            for a in OUTC:
                for b in OUTC:
                    out.append(dict(comb=c, outs=(a, b)))
    return out


def cbody(mc, p):
    ins = [(StubbornFuture if o == "refuse_then_cancel" else ProbeFuture)(mc, "in%d" % i)
           for i, o in enumerate(p["outs"])]
    c = p["comb"]
    if c == "zip":
        out = F.f_zip(*ins)
    elif c == "and":
        out = F.f_and(*ins)
    elif c == "or":
        out = F.f_or(*ins)
    elif c == "sequence":
        out = F.f_sequence(ins)
    elif c == "nocancel":
        out = F.f_nocancel(ins[0])
    elif c == "proxy":
        out = F.f_proxy(ins[0])
    elif c == "f_map":
        out = F.f_map(ins[0], lambda v: ("m", v))
    elif c == "f_flat_map":
        out = F.f_flat_map(ins[0], lambda v: F.f_return(("fm", v)))
    elif c == "f_timeout":
        out = F.f_timeout(ins[0], 1000.0)
    elif c == "apply":
        out = F.f_apply(ins[0], ins[1])
    out.add_done_callback(lambda _f: mc.emit("out.done", snap=snapshot(_f)))

    def ender(i):
        def run():
            f = ins[i]
            o = p["outs"][i]
            if o == "refuse_then_cancel":
                # a cancel through the output is refused by this input; later the input is
                # cancelled directly
                mc.call("out.cancel", out.cancel)
                mc.point()
                for _ in range(3):
                    if mc.call("ext.cancel", f.cancel):
                        break
                f.set_running_or_notify_cancel()
            elif o == "cancel":
                mc.call("ext.cancel", f.cancel)
                f.set_running_or_notify_cancel()
            elif f.set_running_or_notify_cancel():
                if o == "value":
                    f.set_result((lambda y: ("app", y)) if (c == "apply" and i == 0) else "v%d" % i)
                elif o == "falsy":
                    f.set_result((lambda y: 0) if (c == "apply" and i == 0) else 0)
                else:
                    f.set_exception(E2("x%d" % i))
            mc.emit("in.resolved", i=i)
        return run
    for i in range(len(ins)):
        mc.spawn(ender(i), "end%d" % i)
    mc.sleep(10)
    mc.observe(out=snapshot(out), ins=tuple(f._state for f in ins))


def ccheck(x):
    out = x.obs.get("out")
    if out is None:
        x.require(False, "no-observation", end=x.end)
        return
    if out[0] == "pending":
        x.require(False, "output-pending-after-inputs-finished", comb=x.p["comb"],
                  cancelled_input=any(o in ("cancel", "refuse_then_cancel") for o in x.p["outs"]),
                  detail=repr((x.p["outs"], x.obs["ins"])))
    e = x.events("out.done")
    last = [q for q in x.events("in.resolved")]
    if e and last:
        x.require(e[0]["t"] <= max(q["t"] for q in last) + TOL, "late-completion", comb=x.p["comb"])


harness("c03.comb", prop="C03", traced=("futures.zip", "futures.bool", "map", "common"), horizon=40,
        params=_cparams())(cbody)
oracle("c03.comb")(ccheck)

# ------------------------------------------------------------------ a consumer chains onto a future whose input is being cancelled
def _kparams():
    return [dict(kind=k, how=h) for k in ("f_map", "f_flat_map", "throttle", "timeout", "nocancel", "proxy")
            for h in ("cancel", "value", "exception")]


def kbody(mc, p):
    base = ManualExecutor(mc, mode="hold")
    k = p["kind"]
    if k in ("throttle", "timeout"):
        st = Stack(mc, (k,), base="hold", opts=dict(count=1))
        m1 = st.top.submit(lambda: None)
        mc.sleep(0.25)
        src = st.base.items[0].future
    else:
        src = ProbeFuture(mc, "src")
        m1 = {"f_map": lambda: F.f_map(src, lambda v: v), "f_flat_map": lambda: F.f_flat_map(src, lambda v: F.f_return(v)),
              "nocancel": lambda: F.f_nocancel(src), "proxy": lambda: F.f_proxy(src)}[k]()
    res = {}

    def ender():
        if p["how"] == "cancel":
            mc.call("ext.cancel", src.cancel)
            src.set_running_or_notify_cancel()
        elif src.set_running_or_notify_cancel():
            if p["how"] == "value":
                src.set_result("v")
            else:
                src.set_exception(E2("x"))

    def chainer():
        res["m2"] = F.f_map(m1, lambda v: ("h", v))
        res["m3"] = F.f_zip(res["m2"], F.f_return(1))
    mc.spawn(ender, "ender")
    mc.spawn(chainer, "chainer")
    mc.sleep(5)
    mc.observe(m1=snapshot(m1), m2=snapshot(res["m2"]) if "m2" in res else None,
               m3=snapshot(res["m3"]) if "m3" in res else None)


def kcheck(x):
    if not x.require(x.end == "done" and x.obs.get("m2") is not None, "bad-ending", end=x.end):
        return
    for k in ("m1", "m2", "m3"):
        x.require(x.obs[k][0] != "pending", "derived-pending-after-work-finished", layer=x.p["kind"], stage=k,
                  cause="consumer-chained-while-input-ended:" + x.p["how"], detail=repr((x.obs["m1"], x.obs["m2"], x.obs["m3"])))


harness("c03.chain", prop="C03", traced=("common", "map"), horizon=30, params=_kparams())(kbody)
oracle("c03.chain")(kcheck)


# ------------------------------------------------------------------ retry policy faults must not lose the future
def _fparams():
    return [dict(site=s, at=a) for s in ("should_retry", "sleep_time") for a in (1, 2)]


def fbody(mc, p):
    from more_executors._impl.retry import RetryPolicy, RetryExecutor

    class Pol(RetryPolicy):
        n = {"should_retry": 0, "sleep_time": 0}

        def should_retry(self, attempt, future):
            if p["site"] == "should_retry" and attempt == p["at"]:
                raise E2("policy")
            return future.exception() is not None and attempt < 3

        def sleep_time(self, attempt, future):
            if p["site"] == "sleep_time" and attempt == p["at"]:
                raise E2("policy")
            return 1.0
    base = ManualExecutor(mc, mode="manual")
    ex = RetryExecutor(base, retry_policy=Pol())
    mc.spawn(base.worker_loop, "worker", client=False)
    n = [0]

    def fn():
        n[0] += 1
        if n[0] <= 2:
            raise E("again")
        return "v"
    f = ex.submit(fn)
    f.add_done_callback(lambda _f: mc.emit("derived.done", t=mc.clock))
    mc.sleep(20)
    mc.observe(f=snapshot(f))
    ex.shutdown(False)
    base.down = True


def fcheck(x):
    if not x.require(x.end == "done" and "f" in x.obs, "bad-ending", end=x.end):
        return
    x.require(x.obs["f"][0] != "pending", "derived-pending-after-work-finished", layer="retry", stage="-",
              cause="policy-%s-raised" % x.p["site"], detail=repr(x.obs["f"]))


harness("c03.policyfault", prop="C03", traced=(), horizon=40, params=_fparams())(fbody)
oracle("c03.policyfault")(fcheck)


# ------------------------------------------------------------------ timeouts that fire
def _tparams():
    out = []
    for touts in ((5.0, 2.0), (2.0, 5.0), (3.0, 3.0), (4.0, 1.0, 2.0)):
        for api in ("executor", "f_timeout"):
            out.append(dict(touts=touts, api=api))
    return out


def tbody(mc, p):
    from more_executors._impl.timeout import TimeoutExecutor
    base = ManualExecutor(mc, mode="hold")
    ex = TimeoutExecutor(base, 100.0)
    fs = []
    for j, to in enumerate(p["touts"]):
        if p["api"] == "executor":
            f = ex.submit_timeout(to, lambda: None)
        else:
            f = F.f_timeout(ProbeFuture(mc, "in%d" % j), to)
        f.add_done_callback(lambda _f, j=j: mc.emit("derived.done", j=j, snap=snapshot(_f)))
        fs.append(f)
    mc.sleep(20)
    mc.observe(final=tuple(snapshot(f) for f in fs))


def tcheck(x):
    if not x.require(x.end == "done" and "final" in x.obs, "bad-ending", end=x.end):
        return
    for j, to in enumerate(x.p["touts"]):
        d = [e for e in x.events("derived.done") if e["j"] == j]
        x.require(x.obs["final"][j][0] == "cancelled", "not-timed-out", j=j, state=x.obs["final"][j][0])
        if d:
            x.require(d[0]["t"] <= to + TOL, "late-completion", layer="timeout",
                      detail="future with timeout %r done at %r" % (to, d[0]["t"]), lateness=round(d[0]["t"] - to, 2))
            x.require(d[0]["t"] >= to, "early-timeout", detail="timeout %r fired at %r" % (to, d[0]["t"]))


from mc.kit import ManualExecutor  # noqa
harness("c03.timeout_fires", prop="C03", traced=("timeout",), horizon=40, params=_tparams())(tbody)
oracle("c03.timeout_fires")(tcheck)

PLAN = {
    "quick": [dict(harness="c03.layers", bound=2),
              dict(harness="c03.lines.retry", bound=1), dict(harness="c03.lines.poll", bound=1),
              dict(harness="c03.lines.throttle", bound=1), dict(harness="c03.lines.timeout", bound=1),
              dict(harness="c03.lines.map", bound=1),
              dict(harness="c03.comb", bound=2), dict(harness="c03.timeout_fires", bound=1),
              dict(harness="c03.chain", bound=2), dict(harness="c03.policyfault", bound=1)],
    # thorough = quick + one more deviation; where that is out of reach for all cells (tools/size_plan.py)
    # the extra deviation is spent on the cells around the cancel-from-outside paths
    "thorough": [dict(harness="c03.layers", bound=3),
                 dict(harness="c03.lines.retry", bound=1),
                 dict(harness="c03.lines.retry", bound=2, select=lambda p: p["fails"] == 1 and p["sleep"] == 1.0 and not p["warm"]),
                 dict(harness="c03.lines.poll", bound=2),
                 dict(harness="c03.lines.throttle", bound=2), dict(harness="c03.lines.timeout", bound=2),
                 dict(harness="c03.lines.map", bound=2),
                 dict(harness="c03.comb", bound=2),
                 dict(harness="c03.comb", bound=3, select=lambda p: "refuse_then_cancel" in p["outs"]),
                 dict(harness="c03.timeout_fires", bound=2),
                 dict(harness="c03.chain", bound=2),
                 dict(harness="c03.chain", bound=3, select=lambda p: p["kind"] in ("f_map", "f_flat_map", "nocancel", "proxy")),
                 dict(harness="c03.policyfault", bound=2)],
}

"""C18 - faults in user code stay with their own future; worker threads survive."""
from concurrent.futures import CancelledError

from mc.harness import harness, oracle
from mc.kit import E, E2, ManualExecutor, Script, CbProbe, snapshot, brief
from more_executors import Executors
from more_executors._impl.retry import RetryPolicy
from .common import Stack, LAYERS, ABBR, ref_stack

STACKS = [(l,) for l in LAYERS] + [("retry", "map"), ("map", "retry"), ("retry", "poll"), ("throttle", "retry"),
                                    ("map", "flat_map", "timeout")]


class FaultyPolicy(RetryPolicy):
    def __init__(self, mc, site, idx):
        self.mc = mc
        self.site = site
        self.idx = idx
        self.n = {"should_retry": 0, "sleep_time": 0}

    def _maybe(self, name):
        self.n[name] += 1
        if name == self.site and (self.idx == "every" or self.n[name] == self.idx):
            self.mc.emit("fault", site=name, n=self.n[name])
            raise E2("fault:" + name)

    def should_retry(self, attempt, future):
        self._maybe("should_retry")
        return future.exception() is not None and attempt < 3

    def sleep_time(self, attempt, future):
        self._maybe("sleep_time")
        return 1.0


def sites_for(layers):
    s = ["callable", "callback"]
    for pos, l in enumerate(layers):
        if l == "map":
            s += ["map_fn@%d" % pos, "error_fn@%d" % pos]
        if l == "flat_map":
            s += ["flat_fn@%d" % pos, "flat_nonfuture@%d" % pos]
        if l == "poll":
            s += ["poll_fn@%d" % pos, "cancel_fn@%d" % pos]
        if l == "retry":
            s += ["should_retry", "sleep_time"]
        if l == "throttle":
            s += ["count"]
    return s


def _params():
    out = []
    for layers in STACKS:
        for site in sites_for(layers):
            for idx in (1, 2, "every"):
                if idx == 2 and site in ("callback", "callable") and "retry" not in layers:
                    continue
                if site.startswith("flat_nonfuture") and idx != 1:
                    continue
                for canc in (False, True):
                    if canc and not (site.startswith("cancel_fn") or site in ("callable", "should_retry", "sleep_time")):
                        continue
                    if site.startswith("cancel_fn") and not canc:
                        continue
                    out.append(dict(layers=layers, site=site, idx=idx, canc=canc))
    return out


def body(mc, p):
    layers, site, idx = p["layers"], p["site"], p["idx"]
    opts = dict(sleep=1.0, count=2, poll_interval=1.0)

    def faulty(n_ok_then, default):
        """script entries: fail at call idx (1-based) or at every call"""
        if idx == "every":
            return [("raise", E2, "fault:" + site)]
        ent = [default] * (idx - 1) + [("raise", E2, "fault:" + site), default]
        return ent

    pos = int(site.split("@")[1]) if "@" in site else None
    tag = "%s%d" % (ABBR[layers[pos]], pos) if pos is not None else None
    if site.startswith("map_fn"):
        opts[site] = faulty(0, ("call", lambda x, _t=tag: (_t, x)))
    if site.startswith("error_fn"):
        opts[site] = faulty(0, ("reraise",))
    if site.startswith("flat_fn"):
        from more_executors._impl.futures import f_return
        opts[site] = faulty(0, ("call", lambda x, _t=tag: f_return((_t, x))))
    if site.startswith("flat_nonfuture"):
        opts["flat_fn@%d" % pos] = [("ret", "not-a-future")]
    if site.startswith("poll_fn"):
        def default_poll(ds, _p=pos):
            for d in ds:
                d.yield_result(("P%d" % _p, d.result))
        opts[site] = faulty(0, ("call", default_poll))
    if site.startswith("cancel_fn"):
        opts[site] = faulty(0, ("ret", True))
        # keep futures in the polling stage until t >= 2 so that the cancel function is consulted
        def slow_poll(ds, _p=pos):
            if mc.clock >= 2.0:
                for d in ds:
                    d.yield_result(("P%d" % _p, d.result))
        opts["poll_fn@%d" % pos] = [("call", slow_poll)]
    if site == "count":
        cnt_calls = [0]

        def count():
            cnt_calls[0] += 1
            k = cnt_calls[0]
            if k >= 2 and (idx == "every" or k == idx + 1):
                mc.emit("fault", site="count", n=k)
                raise E2("fault:count")
            return 2
        opts["count"] = count
    st = Stack(mc, layers, base="manual", workers=1, opts=opts)
    ex = st.top
    if site in ("should_retry", "sleep_time"):
        # replace the retry layer's default policy
        for e in st.execs:
            if type(e).__name__ == "RetryExecutor":
                e._default_retry_policy = FaultyPolicy(mc, site, idx)

    errs = []

    def guarded(label, fn, *a):
        try:
            return fn(*a)
        except CancelledError:
            return None
        except Exception as e:
            mc.emit("escaped", op=label, exc=type(e).__name__, msg=str(e)[:100])
            return None

    victim_entries = [("ret", "v")]
    if site == "callable":
        victim_entries = faulty(0, ("ret", "v")) if "retry" not in layers else \
            ([("raise", E, "retryable")] * ((idx if idx != "every" else 1) - 1) + [("raise", E2, "fault:callable")])
    if site.startswith("error_fn") or site in ("should_retry", "sleep_time"):
        victim_entries = [("raise", E, "base-failure")] if site.startswith("error_fn") else [("raise", E, "retryable"), ("raise", E, "retryable"), ("ret", "v")]
    vfn = st.script("victim", victim_entries)
    bfn = st.script("bystander", [("ret", "b")])
    pfn = st.script("probe", [("ret", "p")])
    fb = guarded("submit", ex.submit, bfn)
    fv = guarded("submit", ex.submit, vfn)
    nv = 2 if (idx == 2 and site not in ("callable",) and "retry" not in layers) else 1
    fv2 = guarded("submit", ex.submit, vfn) if nv == 2 else None
    if site == "callback" and fv is not None:
        guarded("add_done_callback", fv.add_done_callback, CbProbe(mc, "bad", raises=True, tag="fault:callback"))
        guarded("add_done_callback", fv.add_done_callback, CbProbe(mc, "good"))
    if p["canc"]:
        def canceller():
            if site.startswith("cancel_fn"):
                mc.sleep(1.0)
            r = guarded("cancel", fv.cancel)
            mc.emit("cancel.ret", val=r)
        mc.spawn(canceller, "can")
    mc.sleep(12)
    fp = guarded("submit", ex.submit, pfn)
    mc.sleep(12)
    mc.observe(victim=snapshot(fv) if fv is not None else None, victim2=snapshot(fv2) if fv2 is not None else None,
               bystander=snapshot(fb) if fb is not None else None, probe=snapshot(fp) if fp is not None else None)
    guarded("shutdown", ex.shutdown, False)
    st.base.down = True


def check(x):
    p = x.p
    if not x.require(x.end == "done" and "probe" in x.obs, "bad-ending", end=x.end):
        return
    layers = p["layers"]
    site = p["site"]
    base_site = site.split("@")[0]

    def contains(obj, val):
        if obj == val:
            return True
        if isinstance(obj, (tuple, list)):
            return any(contains(o, val) for o in obj)
        return False

    # which submissions own a fault: those whose data was passed to a failing user-function call
    owners = set()
    fault_calls = [e for e in x.log if e["kind"] == "fn.end" and e["out"][0] == "err" and "fault:" in str(e["out"][1])]
    for e in fault_calls:
        st = [q for q in x.log if q["kind"] == "fn.start" and q["fn"] == e["fn"] and q["k"] == e["k"]][0]
        for who, val in (("bystander", "b"), ("victim", "v"), ("probe", "p")):
            if contains(st["args"], val) or st["fn"] == who:
                owners.add(who)
    logged = [r for r in x.logrecords if r["exc_str"] and "fault:" in r["exc_str"]]
    snaps = dict(bystander=x.obs["bystander"], victim=x.obs["victim"], probe=x.obs["probe"])
    for who, val in (("bystander", "b"), ("victim", "v"), ("probe", "p")):
        snap = snaps[who]
        if snap is None:
            continue
        if who == "victim" and (p["canc"] or x.obs["victim2"] is not None):
            continue          # judged below / shares its script with a second submission
        has_fault = snap[0] == "err" and "fault:" in str(snap[1])
        if base_site == "poll_fn" and has_fault:
            continue          # it was shown to the raising poll call: the fault is its own
        if base_site == "flat_nonfuture":
            x.require(snap[0] == "err" and "TypeError" in str(snap[1]), "non-future-not-typeerror", detail=repr(snap))
            continue
        if who in owners:
            x.require(has_fault or bool(logged), "fault-lost", site=base_site, who=who, detail="%s is %r" % (who, snap))
            x.require(snap[0] != "pending", "faulted-future-never-resolved", site=base_site, who=who)
        elif who == "victim":
            # the victim's own script decides its reference outcome
            x.require(snap[0] != "pending", "victim-never-resolved", site=base_site, state=snap[0])
        else:
            want = ref_stack(layers, ("ok", val))
            x.require(snap == (want[0], brief(want[1])), "unrelated-future-affected", who=who, site=base_site,
                      detail="%s is %r, reference %r" % (who, snap, want))
    # faults with no future of their own must be logged
    if base_site in ("count", "callback", "cancel_fn", "should_retry", "sleep_time"):
        faulted = any(e["kind"] == "fault" for e in x.log) or any(e["kind"] == "cb" and e["cb"] == "bad" for e in x.log) \
            or bool(fault_calls)
        if faulted:
            x.require(bool(logged), "fault-not-logged", site=base_site)
        if site == "callback":
            good = [e for e in x.log if e["kind"] == "cb" and e["cb"] == "good"]
            x.require(len(good) == 1, "later-callback-skipped-after-faulty-one", n=len(good))
    if p["canc"] and base_site == "cancel_fn":
        for e in x.events("cancel.ret"):
            if any(q["kind"] == "fn.end" and q["fn"].startswith("cancel_fn") and q["out"][0] == "err" for q in x.log):
                x.require(e["val"] is False or e["val"] is None or p["idx"] == 2, "raising-cancel-fn-did-not-veto", val=e["val"])
    # nothing escapes into the caller, no worker dies
    for e in x.events("escaped"):
        x.require(False, "exception-escaped-api", op=e["op"], exc=e["exc"], detail=e["msg"])
    for name, exc in x.deaths:
        x.require(False, "thread-died", thread=name.split("-")[0], exc=exc[0], detail=exc[2][-600:])


# ------------------------------------------------------------------ lost races with cancel
RSTACKS = [("retry",), ("retry", "map"), ("map", "retry"), ("retry", "poll"), ("throttle", "retry"), ("throttle",),
           ("poll",), ("timeout",)]


def _rparams():
    return [dict(layers=l, when=w, script=sc) for l in RSTACKS for w in (0.0, 0.5, 1.0, 2.0)
            for sc in (("E", "ok"), ("E", "E", "ok"), ("ok",))
            if ("retry" in l or sc == ("ok",)) and (w in (0.0,) or "retry" in l or "poll" in l)]


def rbody(mc, p):
    opts = dict(sleep=1.0, count=1, poll_interval=1.0)
    st = Stack(mc, p["layers"], base="manual", workers=1, opts=opts)
    ex = st.top
    OUT = {"ok": ("ret", "ok"), "E": ("raise", E, "retryable")}
    fn = st.script("victim", [OUT[o] for o in p["script"]])
    pfn = st.script("probe", [("ret", "p")])
    f = ex.submit(fn)
    esc = []

    def canceller():
        if p["when"]:
            mc.sleep(p["when"])
        try:
            r = f.cancel()
            mc.emit("cancel.ret", val=r)
        except Exception as e:
            mc.emit("escaped", op="cancel", exc=type(e).__name__, msg=str(e)[:100])
    mc.spawn(canceller, "can")
    mc.sleep(10)
    try:
        fp = ex.submit(pfn)
    except Exception as e:
        fp = None
        mc.emit("escaped", op="submit", exc=type(e).__name__, msg=str(e)[:100])
    mc.sleep(10)
    mc.observe(victim=snapshot(f), probe=snapshot(fp) if fp is not None else None)
    ex.shutdown(False)
    st.base.down = True


def rcheck(x):
    if not x.require(x.end == "done" and "probe" in x.obs, "bad-ending", end=x.end):
        return
    want = ref_stack(x.p["layers"], ("ok", "p"))
    x.require(x.obs["probe"] == (want[0], brief(want[1])), "probe-not-served", detail=repr(x.obs["probe"]))
    x.require(x.obs["victim"][0] != "pending", "victim-never-resolved")
    for e in x.events("escaped"):
        x.require(False, "exception-escaped-api", op=e["op"], exc=e["exc"], detail=e["msg"])
    for name, exc in x.deaths:
        x.require(False, "thread-died", thread=name.split("-")[0], exc=exc[0], detail=exc[2][-600:])
    for r in x.logrecords:
        if r["exc_type"] in ("InvalidStateError", "AssertionError", "RuntimeError") and r["level"] >= 40:
            x.require(False, "internal-exception-logged-as-error", exc=r["exc_type"], logger=r["logger"], detail=r["msg"])


harness("c18.cancelrace", prop="C18", traced=(), horizon=60, params=_rparams())(rbody)
oracle("c18.cancelrace")(rcheck)
harness("c18.cancelrace.lines", prop="C18", traced=("retry", "common"), horizon=60,
        params=[q for q in _rparams() if "retry" in q["layers"] and len(q["layers"]) <= 2])(rbody)
oracle("c18.cancelrace.lines")(rcheck)

# ------------------------------------------------------------------ poll function failing while a cancel lands
def _pparams():
    return [dict(kind=k, when=w) for k in ("yield_exc", "raise") for w in (0.0, 1.0)] + \
        [dict(kind="raise_late_registration", when=0.0)]


def pbody(mc, p):
    from more_executors._impl.poll import PollExecutor
    base = ManualExecutor(mc, mode="manual")

    raised = [False]

    def poll_fn(ds):
        mc.emit("poll", n=len(ds), t=mc.clock, shown=tuple(d.result for d in ds))
        if p["kind"] == "raise_late_registration":
            # raises once, when first shown something; later calls resolve what they are shown
            if ds and not raised[0]:
                raised[0] = True
                mc.point()
                mc.emit("poll.raise", shown=tuple(d.result for d in ds))
                mc.point()
                raise E2("fault:poll_fn")
            for d in ds:
                d.yield_result("y:" + d.result)
            return None
        if mc.clock < p["when"]:
            return None
        mc.point()
        if p["kind"] == "raise":
            raise E2("fault:poll_fn")
        for d in ds:
            mc.point()
            d.yield_exception(E2("x:" + d.result))
    ex = PollExecutor(base, poll_fn, default_interval=1.0)
    f0 = ex.submit(lambda: "r0")
    f1 = ex.submit(lambda: "r1")
    mc.spawn(base.worker_loop, "worker", client=False)
    if p["kind"] == "raise_late_registration":
        # two delegate workers: the second delegate may finish while the failing poll call runs
        mc.spawn(base.worker_loop, "worker2", client=False)
        mc.sleep(6)
        fp = ex.submit(lambda: "rp")
        mc.sleep(6)
        mc.observe(f0=snapshot(f0), f1=snapshot(f1), probe=snapshot(fp))
        ex.shutdown(False)
        base.down = True
        return

    def canceller():
        if p["when"]:
            mc.sleep(p["when"])
        try:
            mc.emit("cancel.ret", val=f0.cancel())
        except Exception as e:
            mc.emit("escaped", op="cancel", exc=type(e).__name__, msg=str(e)[:100])
    mc.spawn(canceller, "can")
    mc.sleep(6)
    try:
        fp = ex.submit(lambda: "rp")
    except Exception as e:
        fp = None
        mc.emit("escaped", op="submit", exc=type(e).__name__, msg=str(e)[:100])
    mc.sleep(6)
    mc.observe(f0=snapshot(f0), f1=snapshot(f1), probe=snapshot(fp) if fp is not None else None)
    ex.shutdown(False)
    base.down = True


def pcheck(x):
    if not x.require(x.end == "done" and "probe" in x.obs, "bad-ending", end=x.end):
        return
    if x.p["kind"] == "raise_late_registration":
        shown = set()
        for e in x.events("poll.raise"):
            shown |= set(e["shown"])
        for who, r in (("f0", "r0"), ("f1", "r1"), ("probe", "rp")):
            s = x.obs[who]
            if r in shown:
                x.require(s == ("err", "E2(fault:poll_fn)"), "fault-lost", site="poll_fn", who=who, detail=repr(s))
            else:
                # never shown to the failing call: it must be untouched by the fault
                x.require(s == ("ok", "y:" + r), "unrelated-future-affected", who=who, site="poll_fn",
                          detail="%s is %r but the raising poll call was shown %r" % (who, s, sorted(shown)))
        for name, exc in x.deaths:
            x.require(False, "thread-died", thread=name.split("-")[0], exc=exc[0], detail=exc[2][-600:])
        return
    want = "E2(fault:poll_fn)" if x.p["kind"] == "raise" else None
    for who, r in (("f1", "r1"), ("probe", "rp")):
        s = x.obs[who]
        ok = s is not None and s[0] == "err" and (s[1] == want or s[1] == "E2(x:%s)" % r)
        x.require(ok, "unrelated-future-affected", who=who, site="poll_fn", detail=repr(s))
    s0 = x.obs["f0"]
    x.require(s0[0] in ("cancelled", "err") and "InvalidState" not in str(s0[1]), "victim-outcome", detail=repr(s0))
    for e in x.events("escaped"):
        x.require(False, "exception-escaped-api", op=e["op"], exc=e["exc"], detail=e["msg"])
    for name, exc in x.deaths:
        x.require(False, "thread-died", thread=name.split("-")[0], exc=exc[0], detail=exc[2][-600:])
    for r in x.logrecords:
        if r["exc_type"] in ("InvalidStateError", "AssertionError") and r["level"] >= 40:
            x.require(False, "internal-exception-logged-as-error", exc=r["exc_type"], logger=r["logger"], detail=r["msg"])


# ------------------------------------------------------------------ count callable raising around a blocked submit()
def _bparams():
    return [dict(raise_from=r, over_retry=o) for r in (0.5, 1.5, None) for o in (False, True)]


def bbody(mc, p):
    from more_executors._impl.throttle import ThrottleExecutor
    base = ManualExecutor(mc, mode="manual")

    def count():
        if p["raise_from"] is not None and mc.clock >= p["raise_from"]:
            mc.emit("fault", site="count", n=0)
            raise E2("fault:count")
        return 1
    ex = ThrottleExecutor(base, count, block=True)
    top = Executors.with_retry(ex, max_attempts=2, sleep=1.0, exception_base=E) if p["over_retry"] else ex
    release = [False]

    def occupant():
        mc.wait_until(lambda: release[0])
        return "occ"
    res = {}

    def sub(tag, fn):
        def run():
            try:
                res[tag] = top.submit(fn)
                mc.emit("submitted", tag=tag, t=mc.clock)
            except Exception as e:
                mc.emit("escaped", op="submit:" + tag, exc=type(e).__name__, msg=str(e)[:100])
        return run
    mc.spawn(base.worker_loop, "worker", client=False)
    sub("occ", occupant)()
    mc.sleep(0.25)
    sub("queued", lambda: "q")()
    mc.spawn(sub("blocked", lambda: "b"), "blocked")       # blocks: the queue already holds count entries

    def releaser():
        mc.sleep(2.0)
        release[0] = True
    mc.spawn(releaser, "rel", client=False)
    mc.sleep(40)
    sub("probe", lambda: "p")()
    mc.sleep(40)
    mc.observe(res=tuple(sorted((k, snapshot(f)) for k, f in res.items())))
    top.shutdown(False)
    base.down = True


def bcheck(x):
    if not x.require(x.end == "done" and "res" in x.obs, "bad-ending", end=x.end):
        return
    res = dict(x.obs["res"])
    for tag, val in (("occ", "occ"), ("queued", "q"), ("blocked", "b"), ("probe", "p")):
        x.require(res.get(tag) == ("ok", val), "submission-not-served", tag=tag, detail=repr(res.get(tag)))
    for e in x.events("escaped"):
        x.require(False, "exception-escaped-api", op=e["op"].split(":")[0], exc=e["exc"], detail=e["msg"])
    for name, exc in x.deaths:
        x.require(False, "thread-died", thread=name.split("-")[0], exc=exc[0], detail=exc[2][-600:])


harness("c18.blockcount", prop="C18", traced=(), horizon=120, params=_bparams())(bbody)
oracle("c18.blockcount")(bcheck)

harness("c18.pollrace", prop="C18", traced=("poll", "common"), horizon=40, params=_pparams())(pbody)
oracle("c18.pollrace")(pcheck)

harness("c18.fault", prop="C18", traced=(), horizon=60, params=_params())(body)
oracle("c18.fault")(check)
harness("c18.fault.lines", prop="C18", traced=("retry", "poll", "throttle", "map", "common"), horizon=60,
        params=[q for q in _params() if len(q["layers"]) == 1])(body)
oracle("c18.fault.lines")(check)

PLAN = {
    "quick": [dict(harness="c18.fault", bound=1), dict(harness="c18.fault.lines", bound=0),
              dict(harness="c18.cancelrace", bound=2), dict(harness="c18.cancelrace.lines", bound=1),
              dict(harness="c18.pollrace", bound=1), dict(harness="c18.pollrace", bound=2, select=lambda p: p["kind"] == "raise_late_registration"),
              dict(harness="c18.blockcount", bound=1)],
    # thorough (sized with tools/size_plan.py): the extra deviation of the cancel races is spent on the
    # single-layer cells and (sync-op granularity) on cancels issued at the instant a retry becomes due (when = 1.0)
    "thorough": [dict(harness="c18.fault", bound=2), dict(harness="c18.fault.lines", bound=1),
                 dict(harness="c18.cancelrace", bound=2),
                 dict(harness="c18.cancelrace", bound=3, select=lambda p: len(p["layers"]) == 1 or p["when"] == 1.0),
                 dict(harness="c18.cancelrace.lines", bound=1),
                 dict(harness="c18.cancelrace.lines", bound=2, select=lambda p: len(p["layers"]) == 1),
                 dict(harness="c18.pollrace", bound=2), dict(harness="c18.blockcount", bound=2)],
}

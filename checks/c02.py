"""C02 - every returned future obeys the concurrent.futures.Future protocol."""
from concurrent.futures import CancelledError, wait as cf_wait, as_completed

from mc.harness import harness, oracle
from mc.kit import E, E2, ManualExecutor, ProbeFuture, CbProbe, snapshot, brief
from more_executors import Executors
from more_executors._impl import futures as F
from .common import Stack

ENTRY = ("map", "flat_inner", "retry", "poll", "throttle", "timeout", "cancel_on_shutdown",
         "nocancel", "proxy", "f_map", "f_flat_map", "f_timeout", "zip", "and", "or", "sequence", "apply",
         "or_nested", "and_nested", "zip_nested")
HOW = ("value", "exception", "cancel_inner", "retryable")
WAIT = ("result", "exception", "wait", "as_completed")


def _params():
    out = []
    for ent in ENTRY:
        for how in HOW:
            if how == "retryable" and ent != "retry":
                continue
            for w in WAIT:
                for ncan in (0, 1, 2):
                    if ncan == 2 and w != "result":
                        continue
                    out.append(dict(entry=ent, how=how, waiter=w, ncan=ncan))
    return out


def make(mc, ent):
    """returns (future under test, finish(how))"""
    if ent in ("map", "retry", "poll", "throttle", "timeout", "cancel_on_shutdown"):
        st = Stack(mc, (ent,), base="hold", opts=dict(count=1, sleep=1.0, poll_interval=1.0, poll_tag=False))
        f = st.top.submit(lambda: None)
        base = st.base

        def finish(how):
            mc.wait_until(lambda: len(base.items) > 0, timeout=5)
            if not base.items:
                return              # cancelled before anything reached the delegate
            if how == "value":
                base.complete(0, "v")
            elif how == "retryable":
                base.complete(0, exc=E("retry me"))     # in the retry base: re-queued, then succeeds
                mc.wait_until(lambda: len(base.items) > 1, timeout=5)
                if len(base.items) > 1:
                    base.complete(1, "v")
            elif how == "exception":
                base.complete(0, exc=E2("x"))
            else:
                bf = base.items[0].future
                bf.cancel()
                bf.set_running_or_notify_cancel()
        return f, finish
    if ent == "flat_inner":
        inner = ProbeFuture(mc, "inner")
        f = F.f_flat_map(F.f_return("s"), lambda v: inner)
        ins = [inner]
    else:
        n = 2 if ent in ("zip", "and", "or", "sequence", "apply", "or_nested", "and_nested", "zip_nested") else 1
        ins = [ProbeFuture(mc, "in%d" % i) for i in range(n)]
        if ent == "nocancel":
            f = F.f_nocancel(ins[0])
        elif ent == "proxy":
            f = F.f_proxy(ins[0])
        elif ent == "f_map":
            f = F.f_map(ins[0], lambda v: v)
        elif ent == "f_flat_map":
            f = F.f_flat_map(ins[0], lambda v: F.f_return(v))
        elif ent == "f_timeout":
            f = F.f_timeout(ins[0], 1000.0)
        elif ent == "zip":
            f = F.f_zip(*ins)
        elif ent == "and":
            f = F.f_and(*ins)
        elif ent == "or":
            f = F.f_or(*ins)
        elif ent == "sequence":
            f = F.f_sequence(ins)
        elif ent == "apply":
            f = F.f_apply(ins[0], ins[1])
        elif ent == "or_nested":
            f = F.f_or(F.f_or(ins[1], ins[0]), ins[0])       # the operations share an input
        elif ent == "and_nested":
            f = F.f_and(F.f_and(ins[1], ins[0]), ins[0])
        elif ent == "zip_nested":
            f = F.f_zip(F.f_zip(ins[1], ins[0]), ins[0])
        if n == 2:
            # a consumer's callback on the output that touches the sibling inputs
            f.add_done_callback(lambda _f: [i.cancel() for i in ins])

    def finish(how):
        # the last input decides; earlier inputs get plain values first
        for i, inp in enumerate(ins[:-1]):
            if inp.set_running_or_notify_cancel():
                inp.set_result((lambda y: y) if (ent == "apply" and i == 0) else 1)
        last = ins[-1]
        if how == "cancel_inner":
            last.cancel()
            last.set_running_or_notify_cancel()
        elif last.set_running_or_notify_cancel():
            if how == "value":
                last.set_result("v")
            else:
                last.set_exception(E2("x"))
    return f, finish


def body(mc, p):
    f, finish = make(mc, p["entry"])
    snaps = []

    def snap(tag):
        s = snapshot(f)
        snaps.append(s)
        mc.emit("snap", at=tag, s=s)

    class Cb(object):
        def __init__(self, label):
            self.label = label

        def __call__(self, fut):
            mc.emit("cb", cb=self.label, done=fut.done(), s=snapshot(fut))

    def guarded(label, fn, *a):
        mc.emit("call", op=label)
        try:
            r = fn(*a)
        except (CancelledError,) as e:
            mc.emit("ret", op=label, val="CancelledError")
            return None
        except Exception as e:
            mc.emit("raise", op=label, exc=type(e).__name__, msg=str(e)[:80])
            return None
        mc.emit("ret", op=label, val=brief(r))
        return r

    def bad_cb(fut):
        mc.emit("cb", cb="bad", done=fut.done(), s=snapshot(fut))
        raise E("callback raises")
    guarded("add_done_callback:bad", f.add_done_callback, bad_cb)
    guarded("add_done_callback:early", f.add_done_callback, Cb("early"))

    def completer():
        finish(p["how"])
        mc.emit("finished")
        snap("completer")

    def canceller(k):
        def run():
            guarded("cancel", f.cancel)
            snap("canceller%d" % k)
            guarded("cancel", f.cancel)
            snap("canceller%d" % k)
        return run

    def registrar():
        guarded("add_done_callback:racing", f.add_done_callback, Cb("racing"))
        snap("registrar")

    def waiter():
        w = p["waiter"]
        if w == "result":
            guarded("result", f.result)
        elif w == "exception":
            guarded("exception", f.exception)
        elif w == "wait":
            guarded("wait", lambda: len(cf_wait([f]).done))
        else:
            guarded("as_completed", lambda: next(as_completed([f])) is f)
        mc.emit("waiter.released")
        snap("waiter")

    mc.spawn(waiter, "waiter", client=False)
    mc.spawn(completer, "completer")
    for k in range(p["ncan"]):
        mc.spawn(canceller(k), "can%d" % k)
    mc.spawn(registrar, "registrar")
    mc.sleep(6)
    snap("main")
    guarded("add_done_callback:late", f.add_done_callback, Cb("late"))
    guarded("cancel:late", f.cancel)
    snap("main2")
    mc.observe(final=snapshot(f), state=f._state)


def check(x):
    p = x.p
    if not x.require(x.end == "done" and "final" in x.obs, "bad-ending", end=x.end):
        return
    log = x.log
    final = x.obs["final"]
    ent = p["entry"]
    # (i) terminal outcome set once, never changes
    seen = None
    for e in log:
        s = e.get("s") if e["kind"] in ("snap", "cb") else None
        if s is None:
            continue
        if seen is not None:
            x.require(s == seen, "outcome-changed", detail="%r then %r" % (seen, s))
        elif s[0] != "pending":
            seen = s
    # (ii) cancel returns a bool, no method raises
    for e in log:
        if e["kind"] == "raise":
            if e["op"] == "result" and e["exc"] in ("E2", "E"):
                continue            # result() re-raises the stored exception: documented
            x.require(False, "future-method-raised", op=e["op"].split(":")[0], exc=e["exc"], detail=e["msg"])
        if e["kind"] == "ret" and e["op"].startswith("cancel"):
            x.require(isinstance(e["val"], bool), "cancel-nonbool", val=repr(e["val"]))
            if e["val"] is True:
                x.require(final[0] == "cancelled", "true-cancel-not-sticky", final=final[0])
                after = [q for q in log if q["kind"] == "snap" and q["seq"] > e["seq"]]
                x.require(all(q["s"][0] == "cancelled" for q in after), "true-cancel-not-sticky", final="snap")
    late = [e for e in log if e["kind"] == "ret" and e["op"] == "cancel:late"]
    if late and final[0] in ("ok", "err"):
        x.require(late[0]["val"] is False, "cancel-true-after-normal-finish")
    # (iii) callbacks exactly once, with done() true
    if final[0] != "pending":
        for lab in ("bad", "early", "racing", "late"):
            cbs = [e for e in log if e["kind"] == "cb" and e["cb"] == lab]
            x.require(len(cbs) == 1, "callback-count", cb=lab, n=len(cbs))
            x.require(all(e["done"] for e in cbs), "callback-before-done", cb=lab)
    else:
        x.require(not any(e["kind"] == "cb" for e in log), "callback-on-pending-future")
    # (iv) waiters released by every kind of completion
    if final[0] != "pending":
        x.require(any(e["kind"] == "waiter.released" for e in log), "waiter-not-released",
                  waiter=p["waiter"], final=final[0], state=x.obs["state"], entry=ent)
    else:
        # the underlying work is finished: pending here is a lost future (C03), reported for context
        x.require(ent in ("nocancel",) and False, "pending-after-work-finished", entry=ent, how=p["how"])
    for name, exc in x.deaths:
        x.require(False, "thread-died", thread=name.split("-")[0], exc=exc[0], detail=exc[2][-500:])


harness("c02.protocol", prop="C02", traced=(), horizon=30, params=_params())(body)
oracle("c02.protocol")(check)
harness("c02.protocol.lines", prop="C02", traced=("common", "map", "retry", "poll", "futures.zip", "futures.bool"), horizon=30,
        params=[q for q in _params() if q["ncan"] <= 1 and q["waiter"] in ("result", "wait")])(body)
oracle("c02.protocol.lines")(check)

CORE = lambda p: p["ncan"] <= 1 and p["waiter"] in ("result", "wait")

PLAN = {
    "quick": [dict(harness="c02.protocol", bound=1), dict(harness="c02.protocol", bound=2, select=CORE),
              dict(harness="c02.protocol.lines", bound=1, select=lambda p: p["ncan"] == 1 and p["waiter"] == "wait")],
    # thorough (sized with tools/size_plan.py): a third deviation over all core cells is ~2.5 h on 16 cores;
    # it is spent where a caller's cancel() races a cancellation of the underlying work
    "thorough": [dict(harness="c02.protocol", bound=2),
                 dict(harness="c02.protocol", bound=3,
                      select=lambda p: p["ncan"] == 1 and p["waiter"] == "wait" and p["how"] == "cancel_inner"),
                 dict(harness="c02.protocol.lines", bound=1),
                 dict(harness="c02.protocol.lines", bound=2,
                      select=lambda p: p["ncan"] == 1 and p["waiter"] == "wait" and p["how"] != "value")],
}

"""C05 - retry: exact attempt accounting, sequential attempts, exact back-off."""
import itertools

from mc.harness import harness, oracle
from mc.kit import E, E2, KE, FalsyE, ManualExecutor, Script, snapshot, brief
from mc.sched import EPS
from more_executors import Executors
from more_executors._impl.retry import RetryExecutor, ExceptionRetryPolicy, RetryPolicy

TOL = 8 * EPS
OUT = {"ok": ("ret", "ok"), "E": ("raise", E), "X": ("raise", E2), "K": ("raise", KE), "F": ("raise", FalsyE)}


class LogPolicy(ExceptionRetryPolicy):
    """ExceptionRetryPolicy that logs every consultation."""

    def __init__(self, mc, tag, **kw):
        ExceptionRetryPolicy.__init__(self, **kw)
        self.mc = mc
        self.tag = tag

    def should_retry(self, attempt, future):
        r = ExceptionRetryPolicy.should_retry(self, attempt, future)
        self.mc.emit("policy.should_retry", pol=self.tag, attempt=attempt, done=future.done(), ret=bool(r))
        return r

    def sleep_time(self, attempt, future):
        r = ExceptionRetryPolicy.sleep_time(self, attempt, future)
        self.mc.emit("policy.sleep_time", pol=self.tag, attempt=attempt, ret=r)
        return r


class CustomPolicy(RetryPolicy):
    """kind: 'on_result' retries while the result is 'again';
             'should_raises@k' / 'sleep_raises@k' raise at consultation k (1-based)."""

    def __init__(self, mc, tag, kind, sleep=1.0):
        self.mc = mc
        self.tag = tag
        self.kind = kind
        self.sleep = sleep

    def should_retry(self, attempt, future):
        self.mc.emit("policy.should_retry", pol=self.tag, attempt=attempt, done=future.done(), ret="?")
        if self.kind.startswith("should_raises@") and attempt == int(self.kind.split("@")[1]):
            raise E2("policy-should")
        if self.kind == "on_result":
            return future.exception() is None and future.result() == "again"
        return future.exception() is not None and attempt < 3

    def sleep_time(self, attempt, future):
        self.mc.emit("policy.sleep_time", pol=self.tag, attempt=attempt, ret=self.sleep)
        if self.kind.startswith("sleep_raises@") and attempt == int(self.kind.split("@")[1]):
            raise E2("policy-sleep")
        return self.sleep


def scripts(maxlen):
    out = []
    for n in range(1, maxlen + 1):
        for t in itertools.product(("ok", "E", "X"), repeat=n):
            # entries after the first terminal one are unreachable: keep canonical scripts only
            if any(o in ("ok", "X") for o in t[:-1]):
                continue
            out.append(t)
    return out


def _sweep_params():
    out = []
    for sc in scripts(4) + [("E", "E", "E", "E")]:
        for ma in (1, 2, 3):
            for sl in (0.0, 1.0, 2.0):
                for ex in (1.0, 2.0):
                    for ms in (1.5, 120.0):
                        for mode in ("inline", "manual"):
                            out.append(dict(scripts=(sc,), max_attempts=ma, sleep=sl, exponent=ex, max_sleep=ms,
                                            base=mode, ebase="E", policy="log"))
    # attempts that take time (manual base: the worker thread sleeps inside the callable)
    for sc in (("E", "ok"), ("E", "E", "ok"), ("E", "E", "E")):
        for sl in (1.0, 2.0):
            for ex in (1.0, 2.0):
                out.append(dict(scripts=(sc,), max_attempts=3, sleep=sl, exponent=ex, max_sleep=120.0, base="manual",
                                ebase="E", policy="log", dur=0.75))
    # exception_base variants
    for sc in (("K", "ok"), ("K", "E", "ok"), ("E", "K", "K"), ("X",)):
        for eb in ("E", "KE", "E+KE"):
            out.append(dict(scripts=(sc,), max_attempts=3, sleep=1.0, exponent=2.0, max_sleep=120.0, base="manual",
                            ebase=eb, policy="log"))
    # an exception inside exception_base whose instances are falsy is retried like any other
    for sc in (("F", "ok"), ("F", "F", "ok"), ("E", "F", "ok"), ("F", "F", "F")):
        for eb in ("E", "E+KE"):
            for mode in ("inline", "manual"):
                out.append(dict(scripts=(sc,), max_attempts=3, sleep=1.0, exponent=2.0, max_sleep=120.0, base=mode,
                                ebase=eb, policy="log"))
    return out


def _sched_params():
    out = []
    for scs in ((("E", "E", "ok"),), (("E", "ok"),), (("E", "X"),), (("E", "E", "E"),),
                (("E", "ok"), ("E", "E", "ok")), (("ok",), ("E", "ok")), (("E", "ok"), ("E", "ok"))):
        for sl in (0.0, 1.0):
            out.append(dict(scripts=scs, max_attempts=3, sleep=sl, exponent=2.0, max_sleep=120.0, base="manual",
                            ebase="E", policy="log"))
    # two delegate workers: attempts of different submissions finish concurrently (two threads in the
    # executor's job list at once)
    for scs in ((("ok",), ("ok",)), (("E", "ok"), ("E", "ok")), (("ok",), ("E", "ok")), (("E", "E", "ok"), ("ok",)), (("X",), ("E", "ok"))):
        out.append(dict(scripts=scs, max_attempts=3, sleep=1.0, exponent=1.0, max_sleep=120.0, base="manual",
                        ebase="E", policy="log", workers=2))
    # staggered: the second submission arrives while the first one sits in a long back-off
    for scs in ((("E", "E", "ok"), ("E", "ok")), (("E", "E", "E"), ("E", "E", "ok")), (("E", "E", "ok"), ("ok",))):
        # 1.0 and 3.0: the second submission's first attempt ends at the very instant a retry of the
        # first one becomes due (two threads inside the job list at once)
        for stagger in (1.0, 1.5, 2.0, 3.0):
            out.append(dict(scripts=scs, max_attempts=3, sleep=1.0, exponent=2.0, max_sleep=120.0, base="manual",
                            ebase="E", policy="log", stagger=stagger))
    return out


def _policy_params():
    out = []
    for kind in ("on_result", "should_raises@1", "should_raises@2", "sleep_raises@1", "sleep_raises@2", "percall"):
        for sc in ((("again", "again", "fine"),) if kind == "on_result" else (("E", "E", "ok"), ("E", "ok"), ("E", "E", "E"))):
            for mode in ("inline", "manual"):
                out.append(dict(scripts=(sc,), max_attempts=3, sleep=1.0, exponent=1.0, max_sleep=120.0, base=mode,
                                ebase="E", policy=kind))
    return out


def body(mc, p):
    base = ManualExecutor(mc, mode=p["base"])
    eb = {"E": E, "KE": KE, "E+KE": [E, KE]}[p["ebase"]]
    kw = dict(max_attempts=p["max_attempts"], sleep=p["sleep"], exponent=p["exponent"], max_sleep=p["max_sleep"],
              exception_base=eb)
    pk = p["policy"]
    percall = None
    if pk == "log":
        ex = RetryExecutor(base, retry_policy=LogPolicy(mc, "default", **kw))
    elif pk == "percall":
        ex = RetryExecutor(base, retry_policy=LogPolicy(mc, "default", max_attempts=1))
        percall = LogPolicy(mc, "percall", **kw)
    else:
        ex = RetryExecutor(base, retry_policy=CustomPolicy(mc, "custom", pk, sleep=p["sleep"]))
    fns, fs = [], []
    dur = p.get("dur", 0.0)
    for j, sc in enumerate(p["scripts"]):
        entries = [OUT[o] if o in OUT else ("ret", o) for o in sc]
        # dur > 0: the callable takes (virtual) time: back-off counts from the END of an attempt
        fn = Script(mc, "fn%d" % j, entries, duration=dur)
        fns.append(fn)
    if p["base"] == "manual":
        for w in range(p.get("workers", 1)):
            mc.spawn(base.worker_loop, "worker%d" % w, client=False)

    def submit(j):
        if percall is not None:
            f = ex.submit_retry(percall, fns[j], "a%d" % j, kw="k%d" % j)
        else:
            f = ex.submit(fns[j], "a%d" % j, kw="k%d" % j)
        f.add_done_callback(lambda _f, j=j: mc.emit("derived.done", j=j, snap=snapshot(_f)))
        return f

    if len(fns) == 1:
        fs.append(submit(0))
    elif p.get("stagger"):
        fs.append(submit(0))
        mc.sleep(p["stagger"])
        fs.append(submit(1))
    else:
        slots = [None] * len(fns)

        def sub(j):
            def run():
                slots[j] = submit(j)
            return run
        for j in range(len(fns)):
            mc.spawn(sub(j), "sub%d" % j)
        mc.wait_until(lambda: all(s is not None for s in slots), timeout=5)
        fs = slots
    mc.sleep(8 if p.get("workers") == 2 else 30)
    outs = []
    for j, f in enumerate(fs):
        snap = snapshot(f) if f is not None else ("missing", None)
        same = None
        if f is not None and snap[0] == "err" and fns[j].raised:
            same = f.exception() is fns[j].raised[-1]
        outs.append((snap, same))
    mc.observe(outs=tuple(outs), ncalls=tuple(len(fn.calls) for fn in fns),
               args=tuple(tuple((brief(a), brief(k)) for a, k in fn.calls) for fn in fns))
    ex.shutdown(wait=False)
    base.down = True


def ref_attempts(p, sc):
    """(number of invocations, final outcome index) by the sequential reference."""
    pk = p["policy"]
    ebase = {"E": ("E", "F"), "KE": ("K",), "E+KE": ("E", "F", "K")}[p["ebase"]]
    n = 0
    while True:
        o = sc[min(n, len(sc) - 1)]
        n += 1
        if pk in ("log", "percall"):
            retry = (o in ebase) and n < p["max_attempts"]
        elif pk == "on_result":
            retry = o == "again"
        else:
            kind, k = pk.split("@")
            k = int(k)
            retry = (o in ("E", "X", "K", "F")) and n < 3
            if kind == "should_raises" and n == k:
                retry = False
            if kind == "sleep_raises" and n == k and retry:
                retry = False
        if not retry:
            return n
        if n > 10:
            return n


def ref_delay(p, k):
    if p["policy"] in ("log", "percall"):
        return min(p["sleep"] * (p["exponent"] ** (k - 1)), p["max_sleep"])
    return p["sleep"]


def check(x):
    p = x.p
    if not x.require(x.end == "done" and "outs" in x.obs, "bad-ending", end=x.end):
        return
    for j, sc in enumerate(p["scripts"]):
        lab = "fn%d" % j
        starts = [e for e in x.log if e["kind"] == "fn.start" and e["fn"] == lab]
        ends = [e for e in x.log if e["kind"] == "fn.end" and e["fn"] == lab]
        n_ref = ref_attempts(p, sc)
        x.require(len(starts) == n_ref, "attempt-count", detail="script=%r got=%d ref=%d" % (sc, len(starts), n_ref),
                  diff=len(starts) - n_ref)
        # arguments
        for e in starts:
            x.require(e["args"] == ("a%d" % j,) and e["kwargs"] == (("kw", "k%d" % j),), "wrong-arguments",
                      detail=repr((e["args"], e["kwargs"])))
        # sequential + back-off
        for k in range(1, len(starts)):
            if k - 1 >= len(ends):
                break
            x.require(starts[k]["seq"] > ends[k - 1]["seq"], "attempts-overlap")
            want = ends[k - 1]["t"] + ref_delay(p, k)
            x.require(starts[k]["t"] >= want - 1e-9, "early-retry", k=k,
                      detail="attempt %d started %r, allowed from %r" % (k + 1, starts[k]["t"], want))
            busy = any(e["kind"] in ("fn.start", "fn.end") and e["fn"] != lab and abs(e["t"] - want) <= TOL
                       for e in x.log)
            if not busy:
                x.require(starts[k]["t"] <= want + TOL, "late-retry", k=k,
                          detail="attempt %d started %r, expected %r" % (k + 1, starts[k]["t"], want),
                          lateness=round(starts[k]["t"] - want, 3))
        # policy consultations: once per finished attempt, numbers 1,2,3...
        pol = [e for e in x.log if e["kind"] == "policy.should_retry"]
        if len(p["scripts"]) == 1:
            x.require([e["attempt"] for e in pol] == list(range(1, len(ends) + 1)), "policy-consultations",
                      detail="should_retry attempts %r for %d finished attempts" % ([e["attempt"] for e in pol], len(ends)))
            x.require(all(e["done"] for e in pol), "policy-given-unfinished-future")
            st = [e for e in x.log if e["kind"] == "policy.sleep_time"]
            x.require(len(st) <= len(pol) and len(set(e["attempt"] for e in st)) == len(st), "sleep-time-consultations")
        # done only after the final attempt, with its outcome
        snap, same = x.obs["outs"][j]
        dd = [e for e in x.log if e["kind"] == "derived.done" and e["j"] == j]
        x.require(len(dd) == 1, "callback-count", n=len(dd))
        if dd and ends:
            x.require(dd[0]["seq"] > ends[-1]["seq"] and len(ends) == len(starts), "done-before-final-attempt")
            x.require(not any(s["seq"] > dd[0]["seq"] for s in starts), "attempt-after-done")
        if ends:
            x.require(snap == ends[-1]["out"], "wrong-final-outcome", detail="future %r, last attempt %r" % (snap, ends[-1]["out"]))
            if snap[0] == "err":
                x.require(same is True, "exception-not-same-object")
    for name, exc in x.deaths:
        x.require(False, "thread-died", thread=name.split("-")[0], exc=exc[0], detail=exc[2][-500:])


harness("c05.sweep", prop="C05", traced=(), horizon=80, params=_sweep_params())(body)
oracle("c05.sweep")(check)
harness("c05.sched", prop="C05", traced=(), horizon=80, params=_sched_params())(body)
oracle("c05.sched")(check)
harness("c05.sched.lines", prop="C05", traced=("retry",), horizon=80, params=_sched_params())(body)
oracle("c05.sched.lines")(check)
harness("c05.twoworkers.lines", prop="C05", traced=("retry",), horizon=80,
        params=[q for q in _sched_params() if q.get("workers") == 2])(body)
oracle("c05.twoworkers.lines")(check)
harness("c05.policy", prop="C05", traced=(), horizon=80, params=_policy_params())(body)
oracle("c05.policy")(check)

PLAN = {
    "quick": [dict(harness="c05.sweep", bound=0),
              dict(harness="c05.sched", bound=2),
              dict(harness="c05.sched.lines", bound=1),
              dict(harness="c05.twoworkers.lines", bound=2, select=lambda p: p["scripts"] == (("ok",), ("ok",))),
              dict(harness="c05.twoworkers.lines", bound=1),
              dict(harness="c05.policy", bound=1)],
    "thorough": [dict(harness="c05.sweep", bound=1),
                 dict(harness="c05.sched", bound=3),
                 dict(harness="c05.sched.lines", bound=1),
                 dict(harness="c05.sched.lines", bound=2, select=lambda p: len(p["scripts"]) == 1 or p.get("stagger") == 1.0),
                 dict(harness="c05.twoworkers.lines", bound=1),
                 dict(harness="c05.twoworkers.lines", bound=2, select=lambda p: p["scripts"] in ((("ok",), ("ok",)), (("ok",), ("E", "ok")))),
                 dict(harness="c05.policy", bound=2)],
}

"""C17 - f_proxy is transparent for forwarded operations; f_nocancel shields cancel."""
import math
import operator
from concurrent.futures import Future, TimeoutError as FTimeout, CancelledError

from mc.harness import harness, oracle
from mc.kit import E, E2, ManualExecutor, ProbeFuture, Script, snapshot, brief
from more_executors import Executors
from more_executors._impl import futures as F


class Thing(object):
    """A user class with attributes, a method and a few operators."""

    def __init__(self, n=3):
        self.n = n
        self.items = [1, 2, 3]

    def method(self, a, b=2):
        return ("m", self.n, a, b)

    def __len__(self):
        return self.n

    def __getitem__(self, k):
        return self.items[k]

    def __add__(self, o):
        return ("add", self.n, o)

    def __eq__(self, o):
        return isinstance(o, Thing) and o.n == self.n

    def __hash__(self):
        return hash(self.n)


VALUES = [
    ("int3", lambda: 3), ("int0", lambda: 0), ("neg7", lambda: -7), ("true", lambda: True),
    ("f2.5", lambda: 2.5), ("f-0.5", lambda: -0.5), ("c1+2j", lambda: 1 + 2j),
    ("str", lambda: "hello"), ("empty", lambda: ""), ("bytes", lambda: b"ab"),
    ("list", lambda: [3, 1, 2]), ("tuple", lambda: (1, 2)), ("dict", lambda: {"a": 1, 1: "b"}),
    ("set", lambda: {1, 2}), ("none", lambda: None), ("thing", lambda: Thing()),
]
OPERANDS = [("i2", 2), ("i0", 0), ("i-1", -1), ("f2.0", 2.0), ("f0.5", 0.5), ("c", 2j), ("s", "lo"), ("s%", "%d"),
            ("b", b"a"), ("l", [9]), ("t", (9,)), ("k", "a"), ("set", {2, 3}), ("none", None), ("true", True)]

def under(a):
    return a.result(0) if isinstance(a, Future) else a


BINOPS = {
    "add": operator.add, "sub": operator.sub, "mul": operator.mul, "truediv": operator.truediv,
    "floordiv": operator.floordiv, "mod": operator.mod, "divmod": divmod, "pow": pow,
    "lshift": operator.lshift, "rshift": operator.rshift, "and": operator.and_, "xor": operator.xor,
    "or": operator.or_, "getitem": operator.getitem, "contains": operator.contains,
    "round2": round, "pow3": lambda a, b: pow(a, b, 5),
    "delitem": lambda a, b: (operator.delitem(a, b), under(a))[1],
    "setitem": lambda a, b: (operator.setitem(a, b, "new"), under(a))[1],
}
UNOPS = {
    "len": len, "iter": lambda a: list(iter(a)), "neg": operator.neg, "pos": operator.pos, "abs": abs,
    "invert": operator.invert, "complex": complex, "int": int, "float": float, "round": round,
    "trunc": math.trunc, "floor": math.floor, "ceil": math.ceil,
    "attr_real": lambda a: a.real, "attr_n": lambda a: a.n, "attr_missing": lambda a: a.no_such_attribute,
    "method_upper": lambda a: a.upper(), "method_count": lambda a: a.count(1), "method_user": lambda a: a.method(1, b=5),
    "method_keys": lambda a: sorted(map(str, a.keys())), "dunder_missing": lambda a: a.__no_such_dunder__,
    # the same operation applied twice to one proxy, the underlying object changing in between:
    # every application goes to the result as it is *now* (nothing may be cached on the proxy)
    "attr_n_twice": lambda a: (a.n, setattr(under(a), "n", 41), a.n, delattr(under(a), "n"), outcome(lambda: a.n)),
    "method_twice": lambda a: (a.method(1, b=5), setattr(under(a), "n", 9), a.method(2, b=6)),
    "len_after_append": lambda a: (len(a), under(a).append(0), len(a), list(iter(a)), a[-1], 0 in a),
    "real_twice": lambda a: (a.real, a.real, a.imag),
}


def outcome(fn, *a):
    try:
        r = fn(*a)
    except Exception as e:
        return ("raise", type(e).__name__)
    if isinstance(r, Thing):
        return ("ok", "Thing", r.n, tuple(r.items))
    return ("ok", type(r).__name__, repr(r))


def _params():
    return [dict(op=o, kind="bin") for o in BINOPS] + [dict(op=o, kind="un") for o in UNOPS]


def body(mc, p):
    bad = []
    n = 0
    fn = BINOPS[p["op"]] if p["kind"] == "bin" else UNOPS[p["op"]]
    for vname, mk in VALUES:
        for state in ("resolved", "failed", "failed_attr", "failed_via_proxy", "resolved_via_proxy"):
            if state != "resolved" and vname not in ("int3", "list"):
                continue
            opers = OPERANDS if p["kind"] == "bin" else [(None, None)]
            for oname, ov in opers:
                n += 1
                if state == "resolved":
                    want = outcome(fn, mk(), ov) if p["kind"] == "bin" else outcome(fn, mk())
                    prox = F.f_proxy(F.f_return(mk()))
                elif state == "resolved_via_proxy":
                    want = outcome(fn, mk(), ov) if p["kind"] == "bin" else outcome(fn, mk())
                    prox = F.f_proxy(F.f_nocancel(F.f_proxy(F.f_return(mk()))))
                elif state == "failed_via_proxy":
                    exc = E2("boom")
                    want = ("raise", "AttributeError" if p["op"] == "dunder_missing" else "E2")
                    # the input of the proxy is itself a (failed) proxy future, through f_nocancel
                    prox = F.f_proxy(F.f_nocancel(F.f_proxy(F.f_return_error(exc))), timeout=1.0)
                else:
                    exc = E2("boom") if state == "failed" else AttributeError("boom")
                    want = ("raise", type(exc).__name__)
                    if p["op"] == "dunder_missing":
                        # unknown dunder lookups never touch the future: always AttributeError
                        want = ("raise", "AttributeError")
                    prox = F.f_proxy(F.f_return_error(exc))
                got = outcome(fn, prox, ov) if p["kind"] == "bin" else outcome(fn, prox)
                if got != want:
                    bad.append((vname, oname, state, got, want))
    mc.observe(_cases=n, bad=tuple(bad[:40]), nbad=len(bad))


def check(x):
    if not x.require(x.end == "done" and "bad" in x.obs, "bad-ending", end=x.end):
        return
    for (vname, oname, state, got, want) in x.obs["bad"]:
        x.require(False, "proxy-not-transparent", op=x.p["op"], value=vname, operand=oname, state=state,
                  detail="proxy gives %r, plain value gives %r" % (got, want))


harness("c17.ops", prop="C17", traced=(), horizon=20, params=_params())(body)
oracle("c17.ops")(check)

# ------------------------------------------------------------------ pending futures
NONBLOCK = ("bool", "repr", "str", "eq", "ne", "hash", "dunder", "in_dict", "format")
FORWARD = ("len", "add", "getitem", "attr", "method", "iter", "int", "contains")


def _pparams():
    out = [dict(mode="nonblocking", what=w) for w in NONBLOCK]
    out += [dict(mode="timeout", what=w) for w in FORWARD]
    out += [dict(mode="timeout0", what=w) for w in FORWARD]
    out += [dict(mode="resolved_later", what=w) for w in FORWARD]
    return out


def do_forward(w, prox):
    if w == "len":
        return len(prox)
    if w == "add":
        return prox + [4]
    if w == "getitem":
        return prox[0]
    if w == "attr":
        return prox.__class__ and prox.index      # plain attribute of the result (a bound method)
    if w == "method":
        return prox.count(1)
    if w == "iter":
        return list(iter(prox))
    if w == "int":
        return int(prox)
    if w == "contains":
        return 1 in prox


def pbody(mc, p):
    src = ProbeFuture(mc, "src")
    res = {}
    if p["mode"] == "nonblocking":
        prox = F.f_proxy(src)

        def client():
            w = p["what"]
            if w == "bool":
                r = bool(prox)
            elif w == "repr":
                r = "Future" in repr(prox)
            elif w == "str":
                r = "Future" in str(prox)
            elif w == "eq":
                r = (prox == prox, prox == 1)
            elif w == "ne":
                r = (prox != prox, prox != 1)
            elif w == "hash":
                r = isinstance(hash(prox), int)
            elif w == "in_dict":
                d = {prox: 1}
                r = (prox in d, prox in [prox])
            elif w == "format":
                r = "Future" in "%s" % (prox,)
            elif w == "dunder":
                try:
                    prox.__some_unknown_dunder__
                    r = "no error"
                except AttributeError:
                    r = "AttributeError"
            mc.emit("client.done", r=brief(r), src=src._state, t=mc.clock)
        mc.spawn(client, "client")
        mc.sleep(5)
    elif p["mode"] in ("timeout", "timeout0"):
        prox = F.f_proxy(src, timeout=2.0 if p["mode"] == "timeout" else 0)

        def client():
            try:
                r = do_forward(p["what"], prox)
                mc.emit("client.done", r="returned", t=mc.clock)
            except FTimeout:
                mc.emit("client.done", r="TimeoutError", t=mc.clock)
            except Exception as e:
                mc.emit("client.done", r=type(e).__name__, t=mc.clock)
        mc.spawn(client, "client")
        mc.sleep(8)
    else:
        prox = F.f_proxy(src, timeout=50.0)

        def client():
            try:
                r = do_forward(p["what"], prox)
                mc.emit("client.done", r=brief(r) if not callable(r) else "callable", t=mc.clock)
            except Exception as e:
                mc.emit("client.done", r=type(e).__name__, t=mc.clock)

        def completer():
            mc.sleep(1.0)
            src.set_running_or_notify_cancel()
            src.set_result([1, 2, 1])
        mc.spawn(client, "client")
        mc.spawn(completer, "comp")
        mc.sleep(8)
    mc.observe(src=src._state)


def pcheck(x):
    p = x.p
    d = x.events("client.done")
    if not x.require(len(d) == 1, "proxy-operation-blocked", mode=p["mode"], what=p["what"], end=x.end):
        return
    d = d[0]
    if p["mode"] == "nonblocking":
        x.require(d["src"] == "PENDING" and d["t"] == 0.0, "non-forwarded-operation-resolved-or-waited", what=p["what"])
        if p["what"] == "bool":
            x.require(d["r"] is True, "truth-test-wrong")
        if p["what"] == "dunder":
            x.require(d["r"] == "AttributeError", "unknown-dunder-not-attributeerror")
    elif p["mode"] in ("timeout", "timeout0"):
        want_t = 2.0 if p["mode"] == "timeout" else 0.0
        x.require(d["r"] == "TimeoutError", "timeout-not-honoured", what=p["what"], got=d["r"])
        x.require(abs(d["t"] - want_t) < 1e-3, "timeout-at-wrong-time", what=p["what"], t=d["t"])
    else:
        want = {"len": 3, "add": [1, 2, 1, 4], "getitem": 1, "attr": "callable", "method": 2, "iter": [1, 2, 1], "int": "TypeError",
                "contains": True}[p["what"]]
        x.require(d["r"] == brief(want), "wrong-result-after-late-resolution", what=p["what"], detail=repr(d["r"]))
        x.require(abs(d["t"] - 1.0) < 1e-3, "late-release", t=d["t"])


harness("c17.pending", prop="C17", traced=("futures.proxy", "map", "common"), horizon=60, params=_pparams())(pbody)
oracle("c17.pending")(pcheck)


# ------------------------------------------------------------------ f_nocancel
class CoopFuture(Future):
    """Reports running() while pending but can still be cancelled (cooperative cancellation)."""

    def running(self):
        return not self.done()


def _nparams():
    return [dict(src=s, how=h) for s in ("probe", "coop", "done", "retry_between", "retry_running")
            for h in ("value", "exception", "cancel_src")
            if not (s == "done" and h == "cancel_src") and not (s.startswith("retry") and h != "value")]


def nbody(mc, p):
    base = None
    if p["src"] == "probe":
        src = ProbeFuture(mc, "src")
    elif p["src"] == "coop":
        src = CoopFuture()
    elif p["src"] == "done":
        src = F.f_return("v") if p["how"] == "value" else F.f_return_error(E2("x"))
    else:
        base = ManualExecutor(mc, mode="manual")
        ex = Executors.with_retry(base, max_attempts=3, sleep=2.0, exception_base=E)
        release = [False]

        def attempt():
            if p["src"] == "retry_running":
                mc.wait_until(lambda: release[0])
                return "v"
            raise E("retry me")
        fn = Script(mc, "fn", [("call", attempt), ("ret", "v")])
        src = ex.submit(fn)
        mc.spawn(base.worker_loop, "worker", client=False)
        mc.sleep(0.5)
    nc = F.f_nocancel(src)

    def canceller():
        r = nc.cancel()
        mc.emit("cancel.ret", val=r, src_cancelled=src.cancelled())
    mc.spawn(canceller, "can")
    if p["src"] in ("probe", "coop"):
        def completer():
            if p["how"] == "cancel_src":
                Future.cancel(src)
                src.set_running_or_notify_cancel()
            elif src.set_running_or_notify_cancel():
                if p["how"] == "value":
                    src.set_result("v")
                else:
                    src.set_exception(E2("x"))
        mc.spawn(completer, "comp")
    if p["src"] == "retry_running":
        def rel():
            mc.sleep(1.0)
            release[0] = True
        mc.spawn(rel, "rel")
    mc.sleep(8)
    mc.observe(nc=snapshot(nc), src=snapshot(src))
    if base is not None:
        ex.shutdown(False)
        base.down = True


def ncheck(x):
    p = x.p
    if not x.require(x.end == "done" and "nc" in x.obs, "bad-ending", end=x.end):
        return
    for e in x.events("cancel.ret"):
        x.require(e["val"] is False, "nocancel-cancel-returned-true", src=p["src"])
    if p["how"] != "cancel_src":
        x.require(x.obs["src"][0] != "cancelled", "nocancel-input-was-cancelled", src=p["src"])
    x.require(x.obs["nc"] == x.obs["src"], "nocancel-does-not-mirror", detail="wrapper %r input %r" % (x.obs["nc"], x.obs["src"]))
    x.require(x.obs["nc"][0] != "pending", "nocancel-pending")


harness("c17.nocancel", prop="C17", traced=("futures.nocancel", "map", "common"), horizon=40, params=_nparams())(nbody)
oracle("c17.nocancel")(ncheck)

PLAN = {
    "quick": [dict(harness="c17.ops", bound=0), dict(harness="c17.pending", bound=1), dict(harness="c17.nocancel", bound=2)],
    "thorough": [dict(harness="c17.ops", bound=0), dict(harness="c17.pending", bound=2), dict(harness="c17.nocancel", bound=3)],
}

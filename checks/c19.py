"""C19 - bind / flat_bind chains are equivalent to the executor chain; names propagate."""
import itertools
from functools import partial

from mc.harness import harness, oracle
from mc.kit import E, snapshot, brief
from more_executors import Executors
from more_executors._impl.futures import f_return

LAYERS = ("map", "flat_map", "retry", "throttle", "timeout", "poll", "cancel_on_shutdown")
THREADED = {"retry": "RetryExecutor", "poll": "PollExecutor", "throttle": "ThrottleExecutor", "timeout": "TimeoutExecutor"}
CALLABLES = ("function", "partial_kw", "partial_pos", "object", "object_func", "falsy_object", "future_returning",
             "attr_function", "bound_other")
FUTURE_RETURNING = ("future_returning", "bound_other")
ARGS = ((), (1,), (1, 2))


def apply_layer(ex, layer, pos, name=None):
    kw = {}
    if name is not None:
        kw["name"] = name
    tag = "%s%d" % (layer[0].upper(), pos)
    if layer == "map":
        return ex.with_map(lambda v, _t=tag: (_t, v), **kw)
    if layer == "flat_map":
        return ex.with_flat_map(lambda v, _t=tag: f_return((_t, v)), **kw)
    if layer == "retry":
        return ex.with_retry(max_attempts=2, sleep=1.0, **kw)
    if layer == "throttle":
        return ex.with_throttle(2, **kw)
    if layer == "timeout":
        return ex.with_timeout(100.0, **kw)
    if layer == "poll":
        def poll_fn(ds, _t=tag):
            for d in ds:
                d.yield_result((_t, d.result))
        return ex.with_poll(poll_fn, default_interval=1.0, **kw)
    if layer == "cancel_on_shutdown":
        return ex.with_cancel_on_shutdown(**kw)


class CallObj(object):
    """callable object without __name__"""

    def __init__(self, log):
        self.log = log

    def __call__(self, *a, **k):
        self.log.append((a, tuple(sorted(k.items()))))
        return ("obj", a, tuple(sorted(k.items())))


class CallObjFunc(CallObj):
    """callable object that also exposes a .func attribute (like functools.partial does)"""

    def func(self, *a, **k):
        return "WRONG: .func called instead of the object"


class FalsyCall(list):
    """a callable object that is falsy (an empty list subclass)"""

    def __call__(self, *a, **k):
        self.log.append((a, tuple(sorted(k.items()))))
        return ("falsy", a, tuple(sorted(k.items())))


def make_callable(kind, log):
    def plain(*a, **k):
        log.append((a, tuple(sorted(k.items()))))
        return ("fn", a, tuple(sorted(k.items())))

    def fut(*a, **k):
        log.append((a, tuple(sorted(k.items()))))
        return f_return(("fut", a, tuple(sorted(k.items()))))
    if kind == "function":
        return plain
    if kind == "partial_kw":
        return partial(plain, opt="bound")
    if kind == "partial_pos":
        return partial(plain, "first")
    if kind == "object":
        return CallObj(log)
    if kind == "object_func":
        return CallObjFunc(log)
    if kind == "falsy_object":
        fc = FalsyCall()
        fc.log = log
        return fc
    if kind == "future_returning":
        return fut
    if kind == "attr_function":
        # a function carrying attributes of its own, some spelt like the library's private ones
        plain._name = "fn-attr-name"
        plain._executor = "not an executor"
        plain.calls = 0
        return plain
    if kind == "bound_other":
        # a future-returning callable *object*: another executor's bound callable
        other = Executors.sync(name="other")
        return other.bind(plain)


def _chains(maxtotal, maxeach):
    out = []
    for npre in range(0, maxeach + 1):
        for npost in range(0, maxeach + 1):
            if npre + npost > maxtotal:
                continue
            for pre in itertools.product(LAYERS, repeat=npre):
                for post in itertools.product(LAYERS, repeat=npost):
                    out.append((pre, post))
    return out


def _params(maxtotal, maxeach, callables=CALLABLES):
    out = []
    for pre, post in _chains(maxtotal, maxeach):
        for c in callables:
            for flat in (False, True):
                if flat and c not in FUTURE_RETURNING:
                    continue
                # one argument list per cell, rotating, keeps the product tractable
                out.append(dict(pre=pre, post=post, callable=c, flat=flat, args=ARGS[(len(out)) % 3],
                                kw=(len(out) // 3) % 2 == 1, derive=(len(out) % 2 == 1)))
    return out


def body(mc, p):
    pre, post = p["pre"], p["post"]
    logs = {"bound": [], "plain": []}
    execs = []

    def build(which):
        ex = Executors.sync(name="base")
        execs.append(ex)
        for i, l in enumerate(pre):
            ex = apply_layer(ex, l, i)
            execs.append(ex)
        fn = make_callable(p["callable"], logs[which])
        if which == "bound":
            b = ex.flat_bind(fn) if p["flat"] else ex.bind(fn)
            for i, l in enumerate(post):
                b = apply_layer(b, l, len(pre) + i)
            return b, None
        if p["flat"]:
            ex = ex.with_flat_map(lambda f: f)
            execs.append(ex)
        for i, l in enumerate(post):
            ex = apply_layer(ex, l, len(pre) + i)
            execs.append(ex)
        return ex, fn
    kw = dict(k=3) if p["kw"] else {}
    bound, _ = build("bound")
    if p.get("derive"):
        # deriving further callables from a bound callable must leave the original untouched
        d1 = bound.with_map(lambda v: ("derived", v))
        d2 = bound.with_retry(max_attempts=3, sleep=1.0, name="other")
        d3 = d1.with_map(lambda v: ("derived2", v))
        derived = [d1, d2, d3]
    ex, fn = build("plain")
    try:
        fb = bound(*p["args"], **kw)
    except Exception as e:
        fb = f_return(("calling the bound form raised", type(e).__name__, str(e)[:80]))
    fp = ex.submit(fn, *p["args"], **kw)
    mc.sleep(5)
    mc.observe(bound=snapshot(fb), plain=snapshot(fp), log_bound=brief(logs["bound"]), log_plain=brief(logs["plain"]),
               is_future=hasattr(fb, "add_done_callback"))
    for e in reversed(execs):
        try:
            e.shutdown(wait=False)
        except Exception:
            pass


def check(x):
    if not x.require(x.end == "done" and "bound" in x.obs, "bad-ending", end=x.end):
        return
    p = x.p
    x.require(x.obs["bound"] == x.obs["plain"], "bind-form-differs-from-submit-form", callable=p["callable"], flat=p["flat"],
              detail="pre=%r post=%r bound %r vs submit %r" % (p["pre"], p["post"], x.obs["bound"], x.obs["plain"]))
    x.require(x.obs["log_bound"] == x.obs["log_plain"], "invocations-differ", callable=p["callable"],
              detail="bound %r vs submit %r" % (x.obs["log_bound"], x.obs["log_plain"]))
    if (p["flat"] and not p["pre"]) or p["callable"] not in FUTURE_RETURNING:
        s = x.obs["plain"]
        x.require(s[0] == "ok" and "<Future>" not in repr(s[1]), "future-not-flattened", detail=repr(s))
    for name, exc in x.deaths:
        x.require(False, "thread-died", thread=name.split("-")[0], exc=exc[0], detail=exc[2][-400:])


harness("c19.pairs", prop="C19", traced=(), horizon=30, params=_params(2, 2))(body)
oracle("c19.pairs")(check)
harness("c19.pairs3", prop="C19", traced=(), horizon=30, params=_params(3, 2, ("function", "partial_kw", "future_returning")))(body)
oracle("c19.pairs3")(check)


# ------------------------------------------------------------------ with_asyncio as the last link
def _aparams():
    out = []
    for pre in ((), ("map",), ("retry",), ("throttle",)):
        for post in ((), ("map",), ("flat_map",), ("timeout",)):
            for c in ("function", "partial_kw", "object"):
                out.append(dict(pre=pre, post=post, callable=c, args=ARGS[len(out) % 3]))
    return out


def abody(mc, p):
    """bind(fn).<chain>.with_asyncio() vs <chain>.with_asyncio().submit(fn): with_asyncio is documented as
    the last call of a chain; both forms hand out asyncio futures, driven here by a private event loop."""
    import asyncio
    loop = asyncio.new_event_loop()
    logs = {"bound": [], "plain": []}
    execs = []
    out = {}
    try:
        for which in ("bound", "plain"):
            ex = Executors.sync(name="base")
            execs.append(ex)
            for i, l in enumerate(p["pre"]):
                ex = apply_layer(ex, l, i)
                execs.append(ex)
            fn = make_callable(p["callable"], logs[which])
            try:
                if which == "bound":
                    b = ex.bind(fn)
                    for i, l in enumerate(p["post"]):
                        b = apply_layer(b, l, len(p["pre"]) + i)
                    b = b.with_asyncio(loop=loop)
                    af = b(*p["args"])
                else:
                    for i, l in enumerate(p["post"]):
                        ex = apply_layer(ex, l, len(p["pre"]) + i)
                        execs.append(ex)
                    ex = ex.with_asyncio(loop=loop)
                    af = ex.submit(fn, *p["args"])
                mc.sleep(4)     # worker threads of the layers run under the scheduler; only then drive the loop
                try:
                    out[which] = ("ok", brief(loop.run_until_complete(asyncio.wait_for(af, 5))), type(af).__module__.split(".")[0])
                except Exception as e:
                    out[which] = ("err", brief(e))
            except Exception as e:
                out[which] = ("building or calling raised", type(e).__name__, str(e)[:80])
    finally:
        loop.close()
    mc.observe(bound=out.get("bound"), plain=out.get("plain"), log_bound=brief(logs["bound"]), log_plain=brief(logs["plain"]))
    for e in reversed(execs):
        try:
            e.shutdown(wait=False)
        except Exception:
            pass


def acheck(x):
    if not x.require(x.end == "done" and "bound" in x.obs, "bad-ending", end=x.end):
        return
    p = x.p
    x.require(x.obs["bound"] == x.obs["plain"] and x.obs["plain"][0] == "ok", "bind-form-differs-from-submit-form",
              callable=p["callable"], flat="asyncio",
              detail="pre=%r post=%r + with_asyncio: bound %r vs submit %r" % (p["pre"], p["post"], x.obs["bound"], x.obs["plain"]))
    x.require(x.obs["log_bound"] == x.obs["log_plain"], "invocations-differ", callable=p["callable"])


harness("c19.asyncio", prop="C19", traced=(), horizon=30, params=_aparams())(abody)
oracle("c19.asyncio")(acheck)


# ------------------------------------------------------------------ names
def _nparams():
    out = []
    for n in (1, 2, 3):
        for layers in itertools.product(LAYERS, repeat=n):
            if not any(l in THREADED for l in layers):
                continue
            for explicit in [None] + list(range(n)):
                for bind_at in [None] + list(range(n + 1)):
                    for base in ("sync", "tp"):
                        if n == 3 and (base == "tp" or bind_at not in (None, 1)):
                            continue
                        out.append(dict(layers=layers, explicit=explicit, bind_at=bind_at, base=base, flat=False))
                        if bind_at is not None and base == "sync" and n <= 2:
                            out.append(dict(layers=layers, explicit=explicit, bind_at=bind_at, base=base, flat=False, fnattr=True))
                        if explicit is not None and base == "sync" and n <= 2:
                            # an explicit name that is falsy (the empty string) is a name like any other
                            out.append(dict(layers=layers, explicit=explicit, bind_at=bind_at, base=base, flat=False, ename=""))
                        if bind_at is not None and base == "sync":
                            out.append(dict(layers=layers, explicit=explicit, bind_at=bind_at, base=base, flat=True))
    # a base executor without any name attribute (plain stdlib pool): layers get the default name
    for n in (1, 2):
        for layers in itertools.product(LAYERS, repeat=n):
            if not any(l in THREADED for l in layers):
                continue
            out.append(dict(layers=layers, explicit=None, bind_at=0, base="stdlib", flat=False))
    return out


def nbody(mc, p):
    layers = p["layers"]
    n0 = len(mc.s.threads)
    if p["base"] == "stdlib":
        from concurrent.futures import ThreadPoolExecutor
        pool = ThreadPoolExecutor(max_workers=1)
        cur = Executors.bind(pool, lambda: "v")
        expected = []
        for i, l in enumerate(layers):
            cur = apply_layer(cur, l, i)
            if l in THREADED:
                expected.append("%s-default" % THREADED[l])
        names = [t.name for t in mc.s.threads[n0:] if t.name.split("-")[0] in THREADED.values()]
        mc.observe(names=tuple(names), expected=tuple(expected))
        inner = getattr(cur, "_BoundCallable__executor", None)
        try:
            if inner is not None:
                inner.shutdown(wait=False)
        except Exception:
            pass
        pool.shutdown(wait=False)
        return
    ex = Executors.sync(name="nb") if p["base"] == "sync" else Executors.thread_pool(max_workers=1, name="nb")
    execs = [ex]
    cur = ex
    expected = []
    inherited = "nb"
    def plainfn():
        return "v"
    if p.get("fnattr"):
        plainfn._name = "fn-attr-name"
    for i, l in enumerate(layers):
        if p["bind_at"] == i:
            cur = cur.flat_bind(lambda: f_return("v")) if p["flat"] else cur.bind(plainfn)
        name = None
        if p["explicit"] == i:
            name = p.get("ename", "nx")
            inherited = name
        cur = apply_layer(cur, l, i, name=name)
        if l in THREADED:
            expected.append("%s-%s" % (THREADED[l], inherited))
        if not hasattr(cur, "submit"):
            pass
        else:
            execs.append(cur)
    if p["bind_at"] == len(layers):
        cur = cur.flat_bind(lambda: f_return("v")) if p["flat"] else cur.bind(lambda: "v")
    names = [t.name for t in mc.s.threads[n0:] if t.name.split("-")[0] in THREADED.values()]
    mc.observe(names=tuple(names), expected=tuple(expected))
    # shut down what can be shut down (bound callables hide their executor: reach it for clean-up)
    inner = cur
    if not hasattr(inner, "shutdown"):
        inner = getattr(inner, "_BoundCallable__executor", None)
    for e in [inner] + list(reversed(execs)):
        try:
            if e is not None:
                e.shutdown(wait=False)
        except Exception:
            pass


def ncheck(x):
    if not x.require(x.end == "done" and "names" in x.obs, "bad-ending", end=x.end):
        return
    p = x.p
    x.require(x.obs["names"] == x.obs["expected"], "thread-name-not-inherited",
              via_bind=p["bind_at"] is not None and p["bind_at"] < len(p["layers"]), explicit=p["explicit"] is not None,
              fnattr=bool(p.get("fnattr")), falsy_name=p.get("ename") == "",
              detail="layers=%r explicit@%r bind@%r: threads %r expected %r" % (p["layers"], p["explicit"], p["bind_at"], x.obs["names"], x.obs["expected"]))


harness("c19.names", prop="C19", traced=(), horizon=10, params=_nparams())(nbody)
oracle("c19.names")(ncheck)

PLAN = {
    "quick": [dict(harness="c19.pairs", bound=0), dict(harness="c19.names", bound=0), dict(harness="c19.asyncio", bound=0)],
    "thorough": [dict(harness="c19.pairs", bound=0), dict(harness="c19.pairs3", bound=0), dict(harness="c19.names", bound=0),
                 dict(harness="c19.asyncio", bound=0)],
}

"""C04 - no deadlock among API calls and internal threads, including nested submission."""
from concurrent.futures import CancelledError, TimeoutError as FTimeout

from mc.harness import harness, oracle, stuck_threads
from mc.kit import E
from .common import Stack, LAYERS, stack_name

OPS = ("S", "N", "C", "A", "An", "R", "X")

SINGLE = [(l,) for l in LAYERS]
STACKS = [("map", "retry"), ("retry", "map", "poll", "cancel_on_shutdown"), ("retry", "throttle"),
          ("throttle", "timeout")]


def _progs(nthreads, maxlen):
    seqs = []
    for a in OPS:
        seqs.append((a,))
    if maxlen >= 2:
        for a in OPS:
            for b in OPS:
                if a == "X" and b == "X":
                    continue
                seqs.append((a, b))
    out = []
    if nthreads == 2:
        for i, a in enumerate(seqs):
            for b in seqs[i:]:
                if (a + b).count("X") > 1:
                    continue
                out.append((a, b))
    elif nthreads == 3:
        for i, a in enumerate(seqs):
            for j, b in enumerate(seqs[i:], i):
                for c in seqs[j:]:
                    if (a + b + c).count("X") > 1:
                        continue
                    out.append((a, b, c))
    return out


def _params(stacks, bases, progs):
    out = []
    for layers in stacks:
        for base in bases:
            for prog in progs:
                out.append(dict(layers=layers, base=base, prog=prog))
                if base == "manual" and "timeout" in layers:
                    # the delegate never runs anything: the timeout fires at t=2 and the cancel,
                    # with the done-callbacks, runs on the timeout thread
                    out.append(dict(layers=layers, base="hold", prog=prog))
    return out


P2x1 = _progs(2, 1)
P2x2 = _progs(2, 2)
P3x1 = _progs(3, 1)


def body(mc, p):
    st = Stack(mc, p["layers"], base=p["base"], workers=1,
               opts=dict(timeout=2.0) if p["base"] == "hold" else None)
    ex = st.top
    flaky_calls = [0]

    def flaky():
        # fails once, so that a retry layer goes through its re-queue path
        mc.point()
        flaky_calls[0] += 1
        if flaky_calls[0] == 1:
            raise E("flaky")
        return "p"

    def plain():
        mc.point()
        return "p"

    def inner():
        return "in"

    def nested():
        mc.point()
        try:
            ex.submit(inner)
            mc.emit("nested.returned")
        except RuntimeError:
            mc.emit("nested.refused")
        return "n"

    def cb(_f):
        mc.emit("cb.ran")

    def cbn(_f):
        try:
            ex.submit(inner)
            mc.emit("cb.nested.returned")
        except RuntimeError:
            mc.emit("cb.nested.refused")

    f0 = ex.submit(flaky if "retry" in p["layers"] else plain)

    def runner(ops):
        def run():
            for op in ops:
                try:
                    if op == "S":
                        ex.submit(plain)
                    elif op == "N":
                        ex.submit(nested)
                    elif op == "C":
                        f0.cancel()
                    elif op == "A":
                        f0.add_done_callback(cb)
                    elif op == "An":
                        f0.add_done_callback(cbn)
                    elif op == "R":
                        try:
                            f0.result(timeout=20)
                        except (CancelledError, FTimeout):
                            pass
                    elif op == "X":
                        ex.shutdown()
                except RuntimeError as e:
                    if "cannot schedule new futures" not in str(e):
                        raise
                mc.emit("op.done", op=op)
        return run

    for k, ops in enumerate(p["prog"]):
        mc.spawn(runner(ops), "c%d" % k)
    mc.sleep(30)


def root_cause(x, rows):
    """Canonical description of why threads are stuck: the wait-for cycle (lock creation
    sites / joins on it), a self-edge, or the idle holder at the end of a chain."""
    byname = {r["name"]: r for r in x.table}
    roots = set()
    for r in rows:
        # follow owners until we loop or fall off
        path = []
        cur = r
        while cur is not None and cur["name"] not in [q["name"] for q in path]:
            path.append(cur)
            o = cur.get("on_owner")
            cur = byname.get(o) if o else None
            if cur is not None and not (cur["state"] == "blocked" and cur["on_kind"] in ("lock", "join")):
                # holder is not itself waiting on a lock/join: idle (or finished) holder
                roots.add("holder-%s:%s<-%s" % (cur["state"], path[-1]["on"] if path[-1]["on_kind"] == "lock" else "join",
                                                 cur["kind"]))
                cur = None
                path = None
                break
        if path is None:
            continue
        if cur is not None:
            names = [q["name"] for q in path]
            cyc = path[names.index(cur["name"]):]
            if len(cyc) == 1:
                roots.add("self:%s" % cyc[0]["on"])
            else:
                roots.add("cycle:" + "+".join(sorted((q["on"] if q["on_kind"] == "lock" else "join") for q in cyc)))
    return sorted(roots)


def check(x):
    stuck = stuck_threads(x)
    if stuck or x.end in ("deadlock", "horizon"):
        rows = stuck or [r for r in x.table if r["state"] == "blocked" and r["on_kind"] in ("lock", "join")]
        if rows:
            for root in root_cause(x, rows) or ["unknown"]:
                x.require(False, "deadlock",
                          detail="end=%s stuck=%s" % (x.end, [(r["name"], r["on"], r["on_owner"]) for r in rows]),
                          root=root, base=x.p["base"],
                          nested=any(op in ("N", "An") for t in x.p["prog"] for op in t))
    x.require(x.end != "livelock", "livelock")


harness("c04.single2", prop="C04", traced=(), horizon=100,
        params=_params(SINGLE + [()], ("sync", "manual"), P2x1))(body)
oracle("c04.single2")(check)
harness("c04.single2tp", prop="C04", traced=(), horizon=100,
        params=_params(SINGLE + [()], ("tp",), P2x1))(body)
oracle("c04.single2tp")(check)
harness("c04.stacks2", prop="C04", traced=(), horizon=100,
        params=_params(STACKS, ("sync", "manual"), P2x1))(body)
oracle("c04.stacks2")(check)
harness("c04.single2x2", prop="C04", traced=(), horizon=100,
        params=_params(SINGLE, ("sync", "manual"), P2x2))(body)
oracle("c04.single2x2")(check)
harness("c04.single3", prop="C04", traced=(), horizon=100,
        params=_params(SINGLE, ("sync", "manual"), P3x1))(body)
oracle("c04.single3")(check)

def _kparams():
    out = []
    for comb in ("zip", "and", "or", "sequence", "or_nested", "and_nested", "zip_nested"):
        for how in ("value", "falsy", "exception", "cancel"):
            for cb in ("cancel_sibling", "chain"):
                out.append(dict(comb=comb, how=how, cb=cb))
    return out


def kbody(mc, p):
    from mc.kit import ProbeFuture, E2
    from more_executors._impl import futures as F
    a, b = ProbeFuture(mc, "a"), ProbeFuture(mc, "b")
    c = p["comb"]
    out = {"zip": lambda: F.f_zip(a, b), "and": lambda: F.f_and(a, b), "or": lambda: F.f_or(a, b),
           "sequence": lambda: F.f_sequence([a, b]), "or_nested": lambda: F.f_or(F.f_or(a, b), b),
           "and_nested": lambda: F.f_and(F.f_and(a, b), b), "zip_nested": lambda: F.f_zip(F.f_zip(a, b), b)}[c]()
    if p["cb"] == "cancel_sibling":
        out.add_done_callback(lambda _f: b.cancel())
    else:
        out.add_done_callback(lambda _f: F.f_map(out, lambda v: v))

    def completer():
        if p["how"] == "cancel":
            a.cancel()
            a.set_running_or_notify_cancel()
        elif a.set_running_or_notify_cancel():
            if p["how"] == "value":
                a.set_result(1)
            elif p["how"] == "falsy":
                a.set_result(0)
            else:
                a.set_exception(E2("x"))
        mc.emit("op.done", op="complete")

    def second():
        mc.point()
        b.cancel()
        b.set_running_or_notify_cancel()
        mc.emit("op.done", op="cancel_b")
    mc.spawn(completer, "c0")
    mc.spawn(second, "c1")
    mc.sleep(5)


def kcheck(x):
    stuck = stuck_threads(x)
    if stuck or x.end in ("deadlock", "horizon"):
        rows = stuck or [r for r in x.table if r["state"] == "blocked" and r["on_kind"] in ("lock", "join")]
        if rows:
            for root in root_cause(x, rows) or ["unknown"]:
                x.require(False, "deadlock", detail="end=%s stuck=%s" % (x.end, [(r["name"], r["on"], r["on_owner"]) for r in rows]),
                          root=root, base="comb:" + x.p["comb"], nested=False)
    x.require(len([e for e in x.log if e["kind"] == "op.done"]) == 2 or bool(stuck), "client-never-returned", end=x.end)


harness("c04.comb", prop="C04", traced=(), horizon=30, params=_kparams())(kbody)
oracle("c04.comb")(kcheck)

PLAN = {
    "quick": [dict(harness="c04.single2", bound=2),
              dict(harness="c04.single2tp", bound=1),
              dict(harness="c04.stacks2", bound=1), dict(harness="c04.comb", bound=2)],
    # thorough = quick + one more deviation; for c04.single2 the third deviation is spent on the programs
    # with a nested submission or a shutdown over the synchronous base (tools/size_plan.py)
    "thorough": [dict(harness="c04.single2", bound=2),
                 dict(harness="c04.single2", bound=3,
                      select=lambda p: p["base"] == "sync" and any(op in ("N", "An", "X") for th in p["prog"] for op in th)),
                 dict(harness="c04.single2tp", bound=2),
                 dict(harness="c04.stacks2", bound=1),
                 dict(harness="c04.stacks2", bound=2, select=lambda p: any(op in ("N", "An", "X") for th in p["prog"] for op in th)),
                 dict(harness="c04.single2x2", bound=1),
                 dict(harness="c04.single3", bound=2), dict(harness="c04.comb", bound=3)],
}

"""C07 - throttle: never more than count in flight, FIFO hand-over, no idle capacity."""
from mc.harness import harness, oracle
from mc.kit import E, ManualExecutor, Script, snapshot, brief
from mc.sched import EPS
from more_executors._impl.throttle import ThrottleExecutor

TOL = 8 * EPS


def step_fn(mc, steps, raise_at=(), raise_from=None):
    """count callable: piecewise constant function of virtual time; logs its calls."""
    st = {"n": 0}

    def count():
        st["n"] += 1
        k = st["n"]
        t = mc.clock
        v = steps[0][1]
        for (t0, val) in steps:
            if t >= t0:
                v = val
        if k in raise_at or (raise_from is not None and t >= raise_from):
            mc.emit("count.call", k=k, out="raise")
            raise E("count#%d" % k)
        mc.emit("count.call", k=k, out=v)
        return v
    return count


COUNTS = {
    "0": 0, "1": 1, "2": 2, "None": None,
    "step": ((0.0, 2), (2.5, 1), (5.5, 3)),
    "step_none": ((0.0, 1), (2.5, None), (5.5, 1)),
    "raise": ((0.0, 1), (2.5, 2)),
    # the limit drops below what is already in flight while jobs are still queued
    "drop": ((0.0, 3), (0.5, 1)),
    # the value changes (3 -> 1) and later the callable starts raising: the last good value (1) holds
    "raise_after_change": ((0.0, 3), (0.5, 1)),
}


def _params():
    out = []
    for ck in COUNTS:
        for nsub in (1, 2):
            for njobs in ((5, 6) if ck in ("drop", "raise_after_change") else ((3, 4, 6) if ck == "2" else (3, 4))):
                for cancel in (False, True):
                    for block in (False, True):
                        if block and ck in ("0",):
                            continue        # blocks for ever by specification
                        if block and (cancel or nsub == 2 and njobs >= 4):
                            continue
                        if njobs == 6 and ck == "2" and not block:
                            continue
                        if ck in ("step", "step_none", "raise", "drop", "raise_after_change") and (nsub == 2 or cancel):
                            continue
                        out.append(dict(count=ck, nsub=nsub, njobs=njobs, cancel=cancel, block=block))
    return out


def limit_at(p, t, log, seq):
    c = COUNTS[p["count"]]
    if not isinstance(c, tuple):
        return c
    v = c[0][1]
    for (t0, val) in c:
        if t >= t0:
            v = val
    return v


def body(mc, p):
    base = ManualExecutor(mc, mode="hold")
    c = COUNTS[p["count"]]
    if isinstance(c, tuple):
        cnt = step_fn(mc, c, raise_at=(3, 4) if p["count"] == "raise" else (),
                      raise_from=1.25 if p["count"] == "raise_after_change" else None)
    else:
        cnt = c
    ex = ThrottleExecutor(base, cnt, block=p["block"])
    fs = {}
    njobs = p["njobs"]

    def fn(tag):
        return tag

    def submitter(k, tags):
        def run():
            for tag in tags:
                try:
                    f = mc.call("submit:" + tag, ex.submit, fn, tag)
                    fs[tag] = f
                except Exception as e:
                    mc.emit("submit.error", tag=tag, exc=type(e).__name__, msg=str(e)[:80])
        return run
    tags = ["j%d" % i for i in range(njobs)]
    if p["nsub"] == 1:
        mc.spawn(submitter(0, tags), "sub0")
    else:
        mc.spawn(submitter(0, tags[0::2]), "sub0")
        mc.spawn(submitter(1, tags[1::2]), "sub1")

    claimed = [0]

    def completer(k):
        def run():
            # completes delegate futures one virtual second apart, in an order chosen by
            # the schedule (two completers race for the next one)
            while True:
                mc.sleep(1.0)
                i = claimed[0]
                if i >= len(base.items):
                    if mc.clock > 90:
                        return
                    continue
                claimed[0] += 1
                base.complete(i, "r%d" % i)
        return run
    mc.spawn(completer(0), "comp0", client=False)
    mc.spawn(completer(1), "comp1", client=False)
    if p["cancel"]:
        def canceller():
            mc.wait_until(lambda: tags[-1] in fs, timeout=10)
            f = fs.get(tags[-1])
            if f is not None:
                mc.call("cancel:" + tags[-1], f.cancel)
        mc.spawn(canceller, "can")
    mc.sleep(95)
    mc.observe(final=tuple((t, snapshot(fs[t])) if t in fs else (t, ("missing", None)) for t in tags),
               queue=len(ex._to_submit) if hasattr(ex, "_to_submit") else -1)
    ex.shutdown(wait=False)


def check(x):
    p = x.p
    if not x.require(x.end == "done" and "final" in x.obs, "bad-ending", end=x.end):
        return
    log = x.log
    unlimited = 10 ** 9
    inflight = 0
    handed = []
    # ---- (a) limit at every hand-over, (c) reference eligibility times
    queue = []          # reference FIFO of tags whose submit() returned (static count only)
    ref_time = {}
    static = not isinstance(COUNTS[p["count"]], tuple)
    cancelled = set()
    last_returned = ["unset"]
    thread_limit = ["unset"]
    for e in log:
        k = e["kind"]
        if k == "count.call":
            # "the value the count callable most recently returned to the executor; if it raises, the last
            # value stays in force": the executor keeps one shared last value, the hand-over thread decides
            # with what its own latest evaluation gave it
            if e["out"] != "raise":
                last_returned[0] = e["out"]
            if e["th"].startswith("ThrottleExecutor"):
                thread_limit[0] = last_returned[0]
        elif k == "base.submit":
            inflight += 1
            if static:
                lim = limit_at(p, e["t"], log, e["seq"])
            else:
                lim = thread_limit[0]
                x.require(lim != "unset", "hand-over-without-evaluating-count")
            if lim is None or lim == "unset":
                lim = unlimited
            handed.append((e["args"][0], e["t"], e["seq"]))
            x.require(inflight <= lim, "limit-exceeded", count=p["count"],
                      detail="hand-over of %s at t=%r makes %d in flight, limit %r" % (e["args"][0], e["t"], inflight, lim))
        elif k == "probe.done":
            inflight -= 1
        elif k == "ret" and e["op"].startswith("cancel:") and e["val"] is True:
            cancelled.add(e["op"].split(":")[1])
    # ---- (b) FIFO with respect to real-time order of submit() calls
    order = [t for (t, _, _) in handed]
    calls = {e["op"].split(":")[1]: e["seq"] for e in log if e["kind"] == "call" and e["op"].startswith("submit:")}
    rets = {e["op"].split(":")[1]: e["seq"] for e in log if e["kind"] == "ret" and e["op"].startswith("submit:")}
    for i, a in enumerate(order):
        for b in order[i + 1:]:
            # b handed over after a: wrong if submit(b) returned before submit(a) was called
            if b in rets and a in calls and rets[b] < calls[a]:
                x.require(False, "fifo-violated", detail="%s reached the delegate before %s" % (a, b))
    # ---- (c) no idle capacity (static counts): replay the log against a reference queue
    if static:
        lim = COUNTS[p["count"]]
        lim = unlimited if lim is None else lim
        infl = 0
        q = []
        for e in log:
            k = e["kind"]
            if k == "ret" and e["op"].startswith("submit:"):
                q.append(e["op"].split(":")[1])
            elif k == "ret" and e["op"].startswith("cancel:") and e["val"] is True:
                tg = e["op"].split(":")[1]
                if tg in q:
                    q.remove(tg)
            elif k == "base.submit":
                tg = e["args"][0]
                if tg in q:
                    q.remove(tg)
                infl += 1
            elif k == "probe.done":
                infl -= 1
            # record since when the head could have been handed over
            if q and infl < lim:
                ref_time.setdefault(q[0], e["t"])
        for (tg, t, _) in handed:
            if tg in ref_time and not x.jump:
                x.require(t <= ref_time[tg] + TOL, "idle-capacity",
                          detail="%s handed over at %r, eligible since %r" % (tg, t, ref_time[tg]),
                          lateness=round(t - ref_time[tg], 2))
        # nothing eligible left behind at the end
        x.require(not (x.obs["queue"] > 0 and infl < lim and lim > 0), "queued-with-free-capacity")
    if not static and p["count"] not in ("raise", "raise_after_change"):
        # a changed dynamic count takes effect by the periodic re-check (<= 30 s) at the latest
        for tg, snap in x.obs["final"]:
            x.require(snap[0] != "pending" or tg in cancelled, "dynamic-count-never-applied", tag=tg)
    # ---- (d) blocking mode: submit() blocks only while the queue holds `count` entries
    if p["block"] and static:
        lim = COUNTS[p["count"]]
        lim = unlimited if lim is None else lim
        qlen = 0
        waiting = {}         # tag -> time since which the queue has had room
        for e in log:
            k = e["kind"]
            if k == "call" and e["op"].startswith("submit:"):
                tg = e["op"].split(":")[1]
                waiting[tg] = e["t"] if qlen < lim else None
            elif k == "ret" and e["op"].startswith("submit:"):
                tg = e["op"].split(":")[1]
                since = waiting.pop(tg, None)
                if since is not None and e["t"] > since + TOL:
                    if any(q["kind"] == "probe.done" and abs(q["t"] - e["t"]) <= TOL for q in log):
                        how = "at-next-delegate-completion"
                    elif abs((e["t"] - since) % 30.0) <= TOL or abs(e["t"] % 30.0) <= TOL:
                        how = "at-30s-timer"
                    else:
                        how = "other"
                    x.require(False, "blocked-submit-released-late", how=how,
                              detail="submit(%s) returned at %r, queue had room since %r" % (tg, e["t"], since))
                qlen += 1
            elif k == "base.submit":
                qlen -= 1
                for tg in waiting:
                    if waiting[tg] is None and qlen < lim:
                        waiting[tg] = e["t"]
    # ---- (d) submit() itself
    for e in x.events("submit.error"):
        x.require(False, "submit-raised", exc=e["exc"], block=p["block"], count=p["count"], detail=e["msg"])
    if static and COUNTS[p["count"]] not in (0,):
        for tg, snap in x.obs["final"]:
            if tg not in cancelled:
                x.require(snap[0] == "ok" and snap[1] is not None, "job-not-completed", tag=tg, state=snap[0])
    for name, exc in x.deaths:
        x.require(False, "thread-died", thread=name.split("-")[0], exc=exc[0], detail=exc[2][-500:])


harness("c07.throttle", prop="C07", traced=(), horizon=120, params=_params())(body)
oracle("c07.throttle")(check)
harness("c07.throttle.lines", prop="C07", traced=("throttle",), horizon=120,
        params=[q for q in _params() if q["njobs"] in (3, 5)])(body)
oracle("c07.throttle.lines")(check)



def body_wake(mc, p):
    """Blocking mode, starting from a non-initial state: two jobs in flight, two queued, then a
    submitter that blocks while two delegate completions land at the same instant.  The set-up
    (and everything after the instant) runs on the default schedule; only the window is explored."""
    base = ManualExecutor(mc, mode="hold")
    ex = ThrottleExecutor(base, COUNTS[p["count"]], block=True)
    fs = {}

    def fn(tag):
        return tag
    tags = ["j%d" % i for i in range(p["njobs"])]
    mc.forced(True)
    for tag in tags[:4]:
        fs[tag] = mc.call("submit:" + tag, ex.submit, fn, tag)
    mc.wait_until(lambda: len(base.items) == 2)
    mc.sleep(0.5)
    mc.forced(False)

    def sub():
        for tag in tags[4:]:
            fs[tag] = mc.call("submit:" + tag, ex.submit, fn, tag)
    mc.spawn(sub, "sub0")

    def comp(i):
        def run():
            mc.sleep(0.5)
            base.complete(i, "r%d" % i)
        return run
    mc.spawn(comp(0), "comp0", client=False)
    mc.spawn(comp(1), "comp1", client=False)
    mc.sleep(1.0)
    mc.forced(True)
    i = 2
    while i < len(tags) and mc.clock < 90:
        mc.sleep(1.0)
        if i < len(base.items):
            base.complete(i, "r%d" % i)
            i += 1
    mc.sleep(95 - mc.clock)
    mc.observe(final=tuple((t, snapshot(fs[t])) if t in fs else (t, ("missing", None)) for t in tags),
               queue=len(ex._to_submit) if hasattr(ex, "_to_submit") else -1)
    ex.shutdown(wait=False)


WAKE = [dict(count="2", nsub=1, njobs=n, cancel=False, block=True) for n in (5, 6, 7)]
harness("c07.throttle.wake", prop="C07", traced=(), horizon=120, params=WAKE)(body_wake)
oracle("c07.throttle.wake")(check)
harness("c07.throttle.wake.lines", prop="C07", traced=("throttle",), horizon=120, params=WAKE)(body_wake)
oracle("c07.throttle.wake.lines")(check)

CORE = lambda p: (p["count"] in ("1", "2") and p["njobs"] == 3 or p["count"] in ("drop", "raise_after_change") and p["njobs"] == 5) and not p["block"]

PLAN = {
    "quick": [dict(harness="c07.throttle", bound=1),
              dict(harness="c07.throttle", bound=2, select=CORE),
              dict(harness="c07.throttle.lines", bound=1, select=CORE),
              dict(harness="c07.throttle.wake", bound=2),
              dict(harness="c07.throttle.wake.lines", bound=1)],
    # thorough (sized with tools/size_plan.py; a third deviation on any c07.throttle cell is > 10^7
    # executions, so depth is bought with the non-initial-state harness instead)
    "thorough": [dict(harness="c07.throttle", bound=1),
                 dict(harness="c07.throttle", bound=2, select=lambda p: CORE(p) or p["njobs"] == 3),
                 dict(harness="c07.throttle.lines", bound=1),
                 dict(harness="c07.throttle.lines", bound=2, select=lambda p: p["count"] == "1" and p["njobs"] == 3 and p["nsub"] == 1 and not p["cancel"] and not p["block"]),
                 dict(harness="c07.throttle", bound=1, jump=True, select=lambda p: not p["block"]),
                 dict(harness="c07.throttle.wake", bound=3),
                 dict(harness="c07.throttle.wake.lines", bound=2)],
}

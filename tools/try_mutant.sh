#!/bin/bash
# tools/try_mutant.sh <worktree> <A|B> <checks...>   -- confirm a seeded change, then run checks against it
wt=$1; v=$2; shift 2
set -u
cd $wt || exit 2
git checkout -q -- more_executors
echo "== demo on HEAD (expect PASS/0)"; timeout 120 /venv/bin/python demo_$v.py >/dev/null 2>&1; echo "rc=$?"
git apply mutant_$v.diff || { echo "APPLY FAILED in worktree"; exit 2; }
echo "== demo with change (expect FAIL/!=0)"; timeout 120 /venv/bin/python demo_$v.py >/dev/null 2>&1; echo "rc=$?"
echo "== test suite with change"; timeout 1500 /venv/bin/python -m pytest -q -p no:cacheprovider -n 6 --timeout=600 tests 2>&1 | tail -1
git checkout -q -- more_executors
cd /repo && git apply $wt/mutant_$v.diff || { echo "APPLY FAILED in /repo"; exit 2; }
for c in "$@"; do
  echo "== check $c against the change"
  (cd /verif && ./run_check $c --tier quick 2>&1 | grep -v conda | grep -c '^VIOLATION' ; cd /verif && ./run_check $c --tier quick 2>&1 | grep '^VIOLATION\|signature' | head -6 | cut -c1-220)
done
git -C /repo checkout -- . ; git -C /repo status --short

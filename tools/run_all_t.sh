#!/bin/bash
# thorough sweep with a per-check wall limit
seed=${1:-0}; shift
ids="$@"; [ -z "$ids" ] && ids="C10 C19 C17 C15 C20 C09 C08 C11 C12 C14 C16 C13 C03 C05 C01 C06 C18 C02 C04 C07"
cd "$(dirname "$0")/.."
for id in $ids; do
  s=$(date +%s)
  out=$(VERIF_SEED=$seed timeout ${CAP:-3600} ./run_check $id --tier thorough 2>&1); rc=$?
  e=$(date +%s)
  echo "$id rc=$rc $((e-s))s :: $(echo "$out" | grep -c '^VIOLATION') violations, $(echo "$out" | grep -c '^KNOWN-FINDING') known :: $(echo "$out" | tail -1 | cut -c1-200)"
  echo "$out" | grep -A2 '^VIOLATION\|CHECK-ERROR' | head -12
done

#!/usr/bin/env python3
"""Regenerate /verif/MANIFEST.json from the table below (keeps it schema-valid)."""
import json
import os

HERE = os.path.dirname(os.path.dirname(os.path.abspath(__file__)))

TRUSTED = ("Trusted base: CPython 3.12 interpreter, stdlib concurrent.futures (explored at "
           "synchronisation-operation granularity), the scheduler shims in mc/sched.py. Atomic step = one source "
           "line of the traced library modules. Bounds (threads, operations, deviation bound, value domains) are "
           "those printed in the evidence file's 'cells' table; nothing is claimed beyond them.")

# id -> (technique, level text, design ref) ; None = not claimed (reason)
CLAIMS = {
    "C10": ("stateless model checking of the real code: delay-bounded exhaustive schedule enumeration (controlled scheduler over real threads)",
            "Every schedule (<= deviation bound) of 1-2 submitter threads racing one shutdown() (also repeated, with cancel_futures, over a delegate that finishes its queue on shutdown) over every prior-future state is executed on the real CancelOnShutdownExecutor, plus shutdown() called from inside a callable that a synchronous delegate runs within submit(); the sweep-coverage oracle (every accepted, not yet done future cancelled exactly once; none escapes; none is run instead) is evaluated on each.",
            "DESIGN.md section 6 C10"),
}
CLAIMS["C04"] = ("stateless model checking of the real code: delay-bounded exhaustive schedule enumeration; wait-for-graph analysis of every final state",
    "Every schedule (<= deviation bound, synchronisation-operation granularity) of every 2-thread client program over {submit, nested submit, cancel, add_done_callback, nested callback, result, shutdown} on each executor layer and four stacks, over sync / thread-pool / manual bases, is executed on the real code; a thread blocked for ever on a lock or join (cycle, self-edge, dead holder) is a violation.",
    "DESIGN.md section 6 C04")
CLAIMS["C11"] = ("stateless model checking of the real code: delay-bounded exhaustive schedule enumeration over workload states x racing submit x wait flag",
    "Every schedule (<= deviation bound; synchronisation-operation granularity at d<=2, source-line granularity at d<=1) of shutdown() racing a submitter, for every executor class and four stacks over a recording base, in every workload state (idle, queued, running, done, between retries, polling, throttled): refusal afterwards on every layer (also over a delegate that keeps accepting after its own shutdown), idempotence, exactly-one propagation with identical arguments, worker threads exited after wait=True, shutdown returns.",
    "DESIGN.md section 6 C11")
CLAIMS["C03"] = ("stateless model checking of the real code under a virtual clock: delay-bounded exhaustive schedule enumeration; completion-time oracle",
    "For every executor layer (and both flat_map stages, warm and cold) and every combinator, every schedule (<= deviation bound) of the ways the underlying work can end (value, exception, cancel issued directly on the inner future, cancel through the derived future) is executed; at quiescence a derived future whose work is terminal must be terminal, and its completion / the next retry / the next hand-over must happen at the virtual instant implied by the configuration (never a fallback timer).",
    "DESIGN.md section 6 C03")
CLAIMS["C05"] = ("stateless model checking of the real code under a virtual clock: exhaustive parameter product x delay-bounded schedule enumeration, sequential reference model of the retry loop",
    "The full product of outcome scripts (<=4 attempts) x ExceptionRetryPolicy parameters x base mode (plus falsy exception objects inside exception_base) is executed (d=0 quick, d<=1 thorough); schedules of 1-2 concurrent or staggered submissions are enumerated to d<=2 (sync-op granularity) / d<=1 (line granularity of retry.py) with custom and raising policies; each run is compared with a reference loop: attempt count, arguments, non-overlap, exact back-off times, policy consultations, completion only after the final attempt with its outcome (same exception object).",
    "DESIGN.md section 6 C05")
CLAIMS["C06"] = ("stateless model checking of the real code: delay-bounded exhaustive placement of cancel() over a submission's life",
    "cancel() from 1-2 threads (also twice) is placed at every scheduling point of a submission's life (queued, throttled, handed over, running, between retries, polling) for every layer and six two-layer stacks, and on combinator outputs; oracles: True is sticky and nothing starts or is re-submitted afterwards, running => False with the callable's outcome, retry never re-submits after any cancel() returned, the request reaches the innermost pending delegate/input, f_nocancel shields.",
    "DESIGN.md section 6 C06")
CLAIMS["C07"] = ("stateless model checking of the real code under a virtual clock: delay-bounded schedule enumeration with an in-flight monitor and a reference FIFO queue",
    "Static counts 0/1/2/None, time-stepped, None-phase, raising and dropping dynamic counts, blocking and non-blocking mode, 1-2 submitter threads, 3-6 jobs, two racing completer threads and cancellation of a queued job: every schedule to d<=1 (all cells) / d<=2 (core cells) is executed, and in blocking mode the instant at which two delegate completions meet a blocked submit() is explored to d<=2 (3 thorough) from the non-initial state 2 in flight / 2 queued (set-up on the default schedule); at every hand-over in-flight <= limit(t); FIFO w.r.t. real-time order of submit(); hand-over at the instant the reference queue says a slot is free (static); blocked submit() released when the queue has room; submit() never raises.",
    "DESIGN.md section 6 C07")
CLAIMS["C08"] = ("stateless model checking of the real code under a virtual clock: delay-bounded schedule enumeration against a descriptor-set reference computed from the event log",
    "1-3 polled futures (delegates finishing at different virtual times, one failing, also with a falsy exception object), seven poll-function behaviours (yield at first/second sight, exception, double yield, raising at call 1/2, custom interval), four cancel functions, a canceller and a notify() thread: every schedule to d<=2 (sync-op granularity) / d<=1 (line granularity of poll.py) is executed; oracles: no overlap of poll calls, descriptor set contains every future eligible before the snapshot window and none already resolved, no duplicates, first yield wins, a raising call fails exactly what it was shown, first sight and notify() are prompt, cancel function only in the polling stage and its veto respected.",
    "DESIGN.md section 6 C08")
CLAIMS["C09"] = ("stateless model checking of the real code under a virtual clock: delay-bounded schedule enumeration with a cancel-attempt monitor",
    "Sets of 2-3 futures with default / per-call timeouts and f_timeout, submitted at virtual times 0/0.5/1 from separate threads, completing before / at / after their deadline or never, running at the deadline, with a slow refused cancel, a delegate whose submit() takes time, a done-callback that resubmits on timeout, and a user cancel: every schedule to d<=2 (sync-op) / d<=1 (line granularity of timeout.py) is executed; every cancel() attempt by the timeout thread is logged: none before the deadline, at most one per future, exactly one in [deadline, deadline+8 eps] for a future still pending then, none for early finishers whose outcome is kept. Thorough adds a timer-jump pass for 'never early'.",
    "DESIGN.md section 6 C09")
CLAIMS["C18"] = ("stateless model checking of the real code: fault-site enumeration x delay-bounded schedule enumeration, with a liveness probe submission",
    "Every user-code call site (callable, map/error/flat_map fn incl. non-future return, poll fn, cancel fn, should_retry, sleep_time, count callable, done-callback) raising at call 1, 2 or every call, on each layer and five stacks, optionally with a concurrent cancel, followed by a probe submission; plus cancel() placed at the instant a retry becomes due: every schedule to d<=1 (faults) / d<=2 (cancel races) is executed; oracles: futures that did not flow through the faulty call keep their reference outcome, the fault is the owner's outcome or is logged, the probe is served, no library thread dies, nothing escapes a Future method or submit(), no InvalidStateError/assertion is logged as an error.",
    "DESIGN.md section 6 C18")
CLAIMS["C02"] = ("stateless model checking of the real code: delay-bounded schedule enumeration of concurrent Future-API histories with a protocol monitor",
    "For 17 future-producing entry points (every executor layer, flat-mapped inner stage, f_nocancel, f_proxy, f_map, f_flat_map, f_timeout, f_zip, f_and, f_or, f_sequence, f_apply), three ways the underlying work ends (value, exception, cancel of the inner future) and four kinds of blocked caller (result, exception, wait, as_completed), a completer, 0-2 cancellers (two cancel() each), a racing add_done_callback and the waiter are interleaved to d<=1 (all) / d<=2 (core); monitor: outcome set once and never changes, cancel() returns bool / True is sticky / False after normal finish, every callback exactly once with done() true, every waiter released by every kind of completion, no method raises.",
    "DESIGN.md section 6 C02")
CLAIMS["C13"] = ("explicit enumeration of the input space on the real code with a sequential reference model, plus delay-bounded schedule enumeration for completion/cancel races",
    "All 704 combinations of {map, flat_map} x {executor form, f_* form} x input {value, exception} x {already done, completing later} x fn behaviour (absent, returns, raises, returns future ok/failed/cancelled/later, non-future) x error_fn behaviour (absent, returns, raises new, re-raises same, non-future) are executed and compared with a reference (outcome, call counts, arguments, exception identity, traceback kept); all chains of length 2-3 are compared with the composed function; completion racing a cancel of the output for both flat_map stages is explored to d<=2 (line granularity).",
    "DESIGN.md section 6 C13")
CLAIMS["C14"] = ("explicit-state enumeration of event histories on the real objects (environment choices are free) + delay-bounded schedule enumeration with a linearisation check",
    "Every history over {input i finishes, cancel output, stop} for every outcome assignment (7 values of different types, exception, cancelled, never) with 1-3 inputs (4 in thorough), duplicates, f_nocancel-shielded and f_proxy-wrapped inputs, inputs failing with a falsy exception object, and an output callback cancelling the sibling inputs is executed; after every step the output is compared with the and/or fold reference, and at the end every input still pending at decision time must have received cancel(). Concurrent completions by separate threads (+ output canceller) are explored to d<=2 at line granularity of bool.py and checked for a linearisation consistent with real-time order.",
    "DESIGN.md section 6 C14")
CLAIMS["C15"] = ("explicit-state enumeration of event histories on the real objects + delay-bounded schedule enumeration with a linearisation check",
    "Every history over {input i finishes, cancel output, stop} for every assignment of {value, exception, falsy exception object, CancelledError instance as exception, cancelled, never, running} to 0-3 inputs (4 in thorough) of f_zip / f_sequence / f_traverse, duplicate inputs, sizes 15-25 and 50 in both completion orders with a failing input at first/middle/last position, and f_traverse with a raising fn, is executed and compared step by step with a positional reference (tuple / list type, first failure, cancellation, cancel fan-out, fn called once per element in order). Concurrent completions are explored to d<=2 at line granularity of zip.py with a linearisation check.",
    "DESIGN.md section 6 C15")
CLAIMS["C16"] = ("explicit enumeration of arities x completion orders x failing positions on the real code (environment choices free), plus delay-bounded schedule enumeration for concurrent completions",
    "0-3 positional (4 thorough) x keyword sets including names that collide with the implementation's own identifiers (x, fn, key, args, kwargs): every completion permutation of the function future and argument futures, pre-resolved inputs, a failing input at each position (also a falsy exception object, also through f_proxy) and a raising fn are executed, plus wide calls (10-40 positional and 12 keyword inputs) in four completion-order families; oracle: exactly one call, only after all inputs resolved, positional order, keyword mapping, output = return value / the failing input's or fn's exception. Concurrent resolution by one thread per input to d<=1 (2 thorough) at line granularity.",
    "DESIGN.md section 6 C16")
CLAIMS["C17"] = ("exhaustive differential enumeration operator x value x operand on the real code, plus schedule enumeration for pending futures under a virtual clock",
    "Every forwarded operation (19 binary incl. 3-argument pow, 2-argument round, item set/del; 21 unary/attribute/method incl. unknown attributes and dunders) x 16 values of all builtin kinds and a user class x 15 operands x {resolved, failed, failed with AttributeError} is evaluated on the proxy and on the plain value (same value and type, or same exception type), including operations applied twice to one proxy with the underlying object changing in between: ~9 800 evaluations. Under the scheduler: nine non-forwarded operations must return at t=0 with the future still pending, eight forwarded ones must raise TimeoutError at exactly the configured virtual time and return the right value when another thread resolves the future later; f_nocancel over probe / cooperative / done / retrying futures: cancel() False in every schedule (d<=2), input never cancelled, outcome mirrored.",
    "DESIGN.md section 6 C17")
CLAIMS["C19"] = ("exhaustive program enumeration with a paired-program differential oracle, executed on the real code under the controlled scheduler",
    "All with_* chains (7 layer types) of total length <=2 (quick) / <=3 (thorough) split before/after bind()/flat_bind(), x nine kinds of callable (function, keyword partial, positional partial, callable object, callable object exposing .func, falsy callable object, future-returning function, function carrying attributes such as _name, another executor's bound callable) x argument lists: the bound form and the submit form are built and run side by side and must give equal outcomes and equal invocation logs; flat_bind must flatten; with_asyncio() as the last link is driven by a private event loop. Names: every chain of 1-3 layers containing a thread-creating layer, with an explicit name (also the empty string) at each position or none, bind() at each position, over sync, thread-pool and plain stdlib-pool bases, also binding a function that carries a _name attribute: the names of the threads created must equal the inherited names.",
    "DESIGN.md section 6 C19")
CLAIMS["C01"] = ("stateless model checking of the real code: exhaustive enumeration of layer stacks x outcome scripts, delay-bounded schedule enumeration on the shallow stacks, sequential reference evaluator",
    "Every stack over the 7 layer types of depth 1 (d<=2), depth 2 (d<=1 with two submitter threads, d=0 otherwise) and depth 3 (d=0) - thorough adds depth 4, 5 and 6 (117 649 stacks) at d=0 - over the real SyncExecutor and the real thread pool, two submissions with tagged arguments and per-invocation outcome scripts (success, retryable failures, non-retryable failure, exhaustion, exceptions that compare equal, exception objects that are falsy), one faulty or one recovering user function per position; each run is compared with a recursive reference evaluator: value / the very exception object raised, invocation count, arguments, exactly one done notification.",
    "DESIGN.md section 6 C01")
CLAIMS["C12"] = ("stateless model checking of the real code: delay-bounded placement of shutdown / last-reference drop / exit hook over the worker loop's iteration; weak-reference liveness after an explicit gc step",
    "For the retry / poll / throttle / timeout executors: shutdown(wait or not), dropping the last user reference (idle, while the worker is iterating, after a completed future, with a future still pending) and the library's exit hook are placed by the scheduler at every point of the worker loop (d<=3 sync-op granularity, d<=2 line granularity): the worker thread must have exited by the horizon and a pending future must still complete after the drop. Retention: for 10 executor / combinator kinds and the histories completed / failed / retried / cancelled while queued / cancelled in the delegate / timed out, weak references to the future, the callable, its arguments and its result must be dead after quiescence + gc.collect() while the executor lives.",
    "DESIGN.md section 6 C12; 'interpreter exit' = the library's registered exit hook invoked as a scheduled step (real interpreter finalisation cannot be scheduled)")
CLAIMS["C20"] = ("explicit-state enumeration of event histories on the real executors with a stand-in metrics registry, plus delay-bounded schedule enumeration of concurrent histories",
    "With a stand-in prometheus_client on the import path: every history of depth <=5 (6 thorough) over {submit, delegate finishes ok / fails, cancel, advance time past timeouts and back-offs, shutdown, submit after shutdown, delegate returning an already cancelled future} for 9 executor kinds (failures alternate between ordinary and falsy exception objects) is executed; after every event (quiescent point) futures-in-progress, executors-in-use, retry-queue and throttle-queue gauges must equal the real pending / alive / queued numbers, no series may ever have gone negative, and at the end the future total / cancel / error, retry, poll, poll-error and shutdown-cancel counters must equal the event counts. Concurrent histories (worker, cancel at the instant a retry is due, one or two shutdown threads) are explored to d<=1 (2 thorough); all f_* combinators must return every gauge to zero; two live executors sharing one name must add up in every gauge.",
    "DESIGN.md section 6 C20; the real prometheus_client is not installed, the registry is the checker's stand-in")
NOT_YET = {}

props = [json.loads(l) for l in open(os.path.join(HERE, "properties.jsonl"))]
checks, na = [], []
for p in props:
    pid = p["id"]
    if pid in CLAIMS:
        tech, text, ref = CLAIMS[pid]
        checks.append(dict(
            property_id=pid,
            quick_cmd="./run_check %s --tier quick" % pid,
            thorough_cmd="./run_check %s --tier thorough" % pid,
            evidence_file="evidence/%s.json" % pid,
            replay_cmd_template="./run_check %s --replay {path}" % pid,
            engine="mc",
            level_claimed=dict(category="model_checking", text=text, design_ref=ref),
            level_note=TRUSTED,
            technique=tech,
        ))
    else:
        na.append(dict(property_id=pid, reason=NOT_YET.get(pid, "check not built yet in this round (planned, see DESIGN.md section 6); not claimed until it runs")))

doc = dict(
    version=1,
    setup_cmd="./run_check --selftest",
    hooks=dict(guard="MORE_EXECUTORS_VERIF", enable="no source hooks are needed: the checks import /repo's working tree and replace threading/time seams at run time (MORE_EXECUTORS_VERIF is reserved and unused)",
               baseline_off_cmd="cd /repo && /venv/bin/python -m pytest -ra -q -p no:cacheprovider --timeout=900 --continue-on-collection-errors",
               source_commits=[], add_only=True),
    engines=[dict(name="mc", path="mc/", serves_properties=sorted(CLAIMS),
                  kind_free_text="hand-written stateless model checker for Python threads: controlled scheduler (sys.monitoring LINE events + shim threading primitives + virtual clock), delay-bounded DFS by re-execution, fork-parallel")],
    checks=checks,
    notes="See DESIGN.md. Exit codes: 0 held / 1 VIOLATION / 2 internal checker error.",
    not_applicable=na,
)
with open(os.path.join(HERE, "MANIFEST.json"), "w") as f:
    json.dump(doc, f, indent=1)
print("claimed:", sorted(CLAIMS), "not claimed:", [x["property_id"] for x in na])

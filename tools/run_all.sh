#!/bin/bash
# tools/run_all.sh <tier> <seed> [ids...]  -- run every check, one summary line each
tier=${1:-quick}; seed=${2:-0}; shift 2
ids="$@"; [ -z "$ids" ] && ids="C01 C02 C03 C04 C05 C06 C07 C08 C09 C10 C11 C12 C13 C14 C15 C16 C17 C18 C19 C20"
cd "$(dirname "$0")/.."
for id in $ids; do
  s=$(date +%s)
  out=$(VERIF_SEED=$seed ./run_check $id --tier $tier 2>&1); rc=$?
  e=$(date +%s)
  echo "$id rc=$rc $((e-s))s :: $(echo "$out" | grep -c '^VIOLATION') violations, $(echo "$out" | grep -c '^KNOWN-FINDING') known :: $(echo "$out" | tail -1 | cut -c1-160)"
  echo "$out" | grep -A1 '^VIOLATION\|CHECK-ERROR' | head -8
done

#!/usr/bin/env python3
"""tools/save_seed.py <seed id> <worktree> <A|B> <property> <caught-by csv or -> "<needs>" "<what I ran>" """
import json, os, shutil, sys
sid, wt, v, prop, caught, needs, ran = sys.argv[1:8]
d = os.path.join(os.path.dirname(os.path.dirname(os.path.abspath(__file__))), "seeded", sid)
os.makedirs(d, exist_ok=True)
shutil.copy(os.path.join(wt, "mutant_%s.diff" % v), os.path.join(d, "patch.diff"))
shutil.copy(os.path.join(wt, "demo_%s.py" % v), os.path.join(d, "demo.py"))
notes = os.path.join(wt, "NOTES.md")
if os.path.exists(notes):
    shutil.copy(notes, os.path.join(d, "NOTES.md"))
meta = dict(id=sid, property=prop, variant=v, needs_to_manifest=needs, confirmed=ran,
            caught_by=[c for c in caught.split(",") if c and c != "-"])
json.dump(meta, open(os.path.join(d, "meta.json"), "w"), indent=1)
print("saved", d)

#!/usr/bin/env python3
"""Regenerate MUTANTS.md from seeded/*/meta.json."""
import glob, json, os, re
HERE = os.path.dirname(os.path.dirname(os.path.abspath(__file__)))
metas = [json.load(open(p)) for p in sorted(glob.glob(os.path.join(HERE, "seeded", "*", "meta.json")))]


def missed(m):
    return bool(m.get("missed_first")) or bool(re.search(r"\bmissed\b|first run of|NOT caught", m["confirmed"]))


wave = {"A": 1, "B": 1, "C": 2, "D": 2, "E": 3, "F": 3, "G": 4, "H": 4}
n = len(metas)
nm = [m for m in metas if missed(m)]
nc = [m for m in metas if not m["caught_by"] and not m.get("neutralised_by")]
per_wave = {w: sum(1 for m in nm if wave[m["id"][-1]] == w) for w in (1, 2, 3, 4)}
out = []
out.append("# Seeded property-breaking changes and which check catches them\n")
out.append("%d changes: three waves of two per property (120) and a fourth wave of two for each of eight properties with cheap checks "
           "(C08 C09 C10 C11 C15 C17 C19 C20). Each was written by an independent sub-agent given only the property text and a scratch "
           "worktree of /repo (waves 2-4 were additionally told what the earlier waves had produced for the same property, to force "
           "different code sites, mechanisms and clauses of the statement). A change was kept only after I confirmed, in its worktree, "
           "that (a) the existing test-suite still passes with it (the sleep-based ordering tests in tests/futures/test_or.py, test_and.py, "
           "test_timeout.py and tests/retry/test_retry.py::test_order are flaky under load on this machine and were ignored when they were "
           "the only extra failures), (b) its demo fails with the change and passes without. The quick tier of the property's check was "
           "then run against the changed tree (wave 1: `git -C /repo apply`, run, `git checkout`; waves 2-4: `VERIF_REPO=<worktree> "
           "./run_check ...`, which leaves /repo untouched; `tools/try_mutant.sh`, `tools/try2.sh`). `tools/run_seeds.sh` re-runs the whole "
           "set against /repo's HEAD in a scratch worktree; every patch.diff is kept rebased onto HEAD.\n" % n)
out.append("Ids: `<ID>-A`, `-B` = wave 1; `-C`, `-D` = wave 2; `-E`, `-F` = wave 3; `-G`, `-H` = wave 4.\n")
out.append("| seed | property | what it needs to manifest | caught by (runs actually made) | check as it stood when the seed arrived |")
out.append("|---|---|---|---|---|")
for m in metas:
    if m.get("neutralised_by"):
        c4, c5 = "- (no longer breaks the property since fix %s)" % m["neutralised_by"], "missed it at d<=2; caught at d=3 until the fix made the change harmless (see meta.json)"
    elif not m["caught_by"]:
        c4, c5 = "**not caught**", "not caught - see meta.json"
    else:
        c4 = ", ".join(m["caught_by"])
        c5 = "missed it; strengthened (see meta.json)" if missed(m) else "caught"
    out.append("| %s | %s | %s | %s | %s |" % (m["id"], m["property"], m["needs_to_manifest"].replace("|", "/"), c4, c5))
out.append("")
out.append("%d of %d were missed by the check as it stood when the seed arrived (%d of wave 1, %d of wave 2, %d of wave 3, %d of the 16 of wave 4 - "
           "later waves were steered towards what the earlier ones had not touched). Every miss but a handful was a gap in the *driver* (a state "
           "or input the harness could not produce); C10-F needed one more deviation than the quick tier explored (the quick bound was raised); "
           "C16-C, C01-E and C07-F needed narrow harnesses (C07-F: exploration started from a non-initial state, `c07.throttle.wake`)." % (
               len(nm), n, per_wave[1], per_wave[2], per_wave[3], per_wave[4]))
out.append("")
if nc:
    out.append("**Not caught: %s.** C08-G (append to the poll-descriptor list without the lock) cannot manifest on CPython 3.12 with the library's "
               "own list object: the lost update needs a thread switch between the end of a list comprehension's iteration and the attribute "
               "store that follows it, where the interpreter has no switch point (no call, no backward jump); its demo substitutes a list subclass "
               "with a Python-level iterator. That is exactly the granularity limit stated in DESIGN section 9, so it is recorded as a limit of "
               "the model rather than patched over." % ", ".join(m["id"] for m in nc))
    out.append("")
out.append("Details of what was run and what was added are in `seeded/<id>/meta.json` (`confirmed`); `seeded/<id>/NOTES.md` is the author's own description.")
out.append("")
out.append("Identical changes delivered for two properties count for both checks (e.g. C03-A/C07-A, C03-B/C09-A, C05-A/C18-A/C03-F, C11-B/C20-B, "
           "C01-C/C03-C, C08-C/C12-D, C01-D/C13-C, C03-D/C13-D/C02-B, C02-D/C18-E, C02-E/C14-E, C14-F/C16-F/C17-E, C08-B/C18-F, C02-A/C20-E, C01-B/C05-E).")
out.append("")
out.append("Hand-made sanity mutants used while building (not kept as seeds): retry.shutdown without join and throttle.shutdown dropping **kwargs (both caught by C11).")
open(os.path.join(HERE, "MUTANTS.md"), "w").write("\n".join(out) + "\n")
print("seeds", n, "missed first", len(nm), per_wave, "not caught", [m["id"] for m in nc])

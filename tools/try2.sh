#!/bin/bash
# tools/try2.sh <worktree root> <ID> <A|B> <checks...> : confirm a seeded change in its worktree and
# run checks against that worktree (VERIF_REPO), leaving /repo untouched
root=$1; id=$2; v=$3; shift 3
wt=$root/$id
cd $wt || exit 2
git checkout -q -- more_executors
timeout 300 /venv/bin/python demo_$v.py >/dev/null 2>&1; h=$?
git apply mutant_$v.diff || { echo "$id-$v APPLY-FAILED"; exit 2; }
timeout 300 /venv/bin/python demo_$v.py >/dev/null 2>&1; m=$?
t=$(timeout 2400 /venv/bin/python -m pytest -q -p no:cacheprovider -n 4 --timeout=600 tests 2>&1 | tail -1)
echo "$id-$v demo_head=$h demo_mut=$m tests: $t"
for c in "$@"; do
  out=$(cd /verif && VERIF_REPO=$wt ./run_check $c --tier quick 2>&1 | grep -v conda)
  echo "$id-$v check $c: $(echo "$out" | grep -c '^VIOLATION') violations :: $(echo "$out" | grep signature | head -3 | cut -c1-160 | tr '\n' ';')"
  echo "$out" | grep 'CHECK-ERROR' -A3 | head -5
done
git checkout -q -- more_executors

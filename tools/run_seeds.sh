#!/bin/bash
# tools/run_seeds.sh [seed ids...] : regression over the seeded changes.  For every seed: apply its
# patch.diff in a scratch worktree of /repo's HEAD (never in /repo), run its demo (must fail), run the
# quick tier of the first check named in meta.json's caught_by against that worktree (must report a
# VIOLATION), undo.  One line per seed; the worktree is removed at the end.
cd "$(dirname "$0")/.."
wt=${SEED_WT:-/tmp/wt_seeds}
git -C /repo worktree remove --force $wt 2>/dev/null; git -C /repo worktree prune
git -C /repo worktree add -q $wt HEAD || exit 2
ids="$@"; [ -z "$ids" ] && ids=$(ls seeded)
for s in $ids; do
  d=seeded/$s
  git -C $wt checkout -q -- . ; git -C $wt clean -fdq
  if ! git -C $wt apply $PWD/$d/patch.diff 2>/dev/null; then echo "$s APPLY-FAILED"; continue; fi
  (cd $wt && PYTHONPATH=$wt timeout 300 /venv/bin/python $OLDPWD/$d/demo.py >/dev/null 2>&1); m=$?
  checks=$(/venv/bin/python -c "import json;print(' '.join(json.load(open('$d/meta.json'))['caught_by'][:${SEED_NCHECKS:-1}]))")
  res=""
  for c in $checks; do
    s0=$(date +%s)
    out=$(VERIF_REPO=$wt timeout 1500 ./run_check $c --tier quick 2>&1 | grep -v conda)
    n=$(echo "$out" | grep -c '^VIOLATION'); e=$(echo "$out" | grep -c 'CHECK-ERROR')
    res="$res $c:violations=$n${e:+,errors=$e} ($(( $(date +%s)-s0 ))s) $(echo "$out" | grep signature | head -1 | cut -c1-110)"
  done
  echo "$s demo_rc=$m ::$res"
done
git -C /repo worktree remove --force $wt; git -C /repo worktree prune

#!/venv/bin/python
"""tools/size_plan.py <ID> [tier] : predict the cost of every plan entry before running it.

For every (harness, cell) selected by a plan entry the cell is explored at deviation bound 1
(cheap); with delay bounding executions(d) ~ C(E1 - 1, d) summed over d' <= d, where E1 - 1 is
the number of single deviations available.  Prints, per plan entry, the measured bound-1 cost
and the predicted number of executions / wall time at the entry's bound on NPROC cores.
"""
import math
import multiprocessing
import os
import sys
import time

sys.path.insert(0, os.path.dirname(os.path.dirname(os.path.abspath(__file__))))
from mc import run, harness as H          # noqa: E402

_cache = {}


def _one(args):
    hname, pi, order, jump = args
    h = H.HARNESSES[hname]
    t0 = time.time()
    st, rest = H.explore(h, pi, [((), 0, None)], 1, 200000, order=order, jump=jump)
    return hname, pi, st.executions, time.time() - t0, len(rest)


def main():
    cid = sys.argv[1]
    tier = sys.argv[2] if len(sys.argv) > 2 else "thorough"
    mod = run.load_check(cid)
    plan = mod.PLAN[tier]
    jobs = {}
    for ent in plan:
        h = H.HARNESSES[ent["harness"]]
        sel = ent.get("select")
        b0 = ent.get("bound", 0)
        for pi, p in enumerate(h.params):
            if sel is None or sel(p):
                if (b0(p) if callable(b0) else b0) == 0:
                    continue            # bound 0: one execution per cell, nothing to predict
                jobs[(h.name, pi, ent.get("order", "rr"), ent.get("jump", False))] = None
    ctx = multiprocessing.get_context("fork")
    with ctx.Pool(run.NPROC, initializer=run._winit) as pool:
        for hname, pi, n, dt, rest in pool.imap_unordered(_one, list(jobs)):
            for k in jobs:
                if k[0] == hname and k[1] == pi:
                    jobs[k] = (n, dt, rest)
    tot_t = 0.0
    for ent in plan:
        h = H.HARNESSES[ent["harness"]]
        sel = ent.get("select")
        b = ent.get("bound", 0)
        e1 = ed = 0
        t1 = 0.0
        cells = 0
        for pi, p in enumerate(h.params):
            if sel is not None and not sel(p):
                continue
            bb = b(p) if callable(b) else b
            if bb == 0:
                ed += 1
                cells += 1
                continue
            n, dt, rest = jobs[(h.name, pi, ent.get("order", "rr"), ent.get("jump", False))]
            m = max(n - 1, 0)
            e1 += n
            t1 += dt
            ed += sum(math.comb(m, k) for k in range(0, bb + 1)) if bb >= 1 else 1
            cells += 1
        ms = 1000.0 * t1 / max(e1, 1)
        wall = ed * ms / 1000.0 / run.NPROC
        tot_t += wall
        print("%-28s bound=%-9s cells=%-5d E(1)=%-8d %.2f ms/exec  predicted E(bound)=%-12d ~%.0f s on %d cores" % (
            ent["harness"], b if not callable(b) else "per-cell", cells, e1, ms, ed, wall, run.NPROC))
    print("predicted total ~%.0f s" % tot_t)


if __name__ == "__main__":
    main()

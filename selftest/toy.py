"""Engine self-tests: toy bugs must be found at the expected bound."""
import sys, time
sys.path.insert(0, "/verif")
from mc import sched, seams, harness as H

seams.install()


@H.harness("toy.abba", prop="T", traced=())
def abba(mc, p):
    a, b = sched.Lock(), sched.Lock()

    def t1():
        with a:
            mc.point()
            with b:
                pass

    def t2():
        with b:
            mc.point()
            with a:
                pass
    mc.spawn(t1, "t1")
    mc.spawn(t2, "t2")


@H.oracle("toy.abba")
def _o(x):
    x.require(x.end != "deadlock", "deadlock")


@H.harness("toy.lostwake", prop="T", traced=(), horizon=50)
def lostwake(mc, p):
    ev = sched.Event()
    state = {"work": 0, "done": 0}

    def worker():
        while state["done"] < 1:
            if state["work"]:
                state["work"] -= 1
                state["done"] += 1
                mc.emit("done", t=mc.clock)
                continue
            mc.point()
            ev.clear()          # BUG: clear before wait (should be wait; clear; rescan)
            ev.wait(30.0)

    def producer():
        state["work"] += 1
        ev.set()
    mc.spawn(worker, "worker")
    mc.spawn(producer, "producer")


@H.oracle("toy.lostwake")
def _o2(x):
    d = x.events("done")
    x.require(d and d[0]["t"] < 1.0, "late", t=d[0]["t"] if d else None)


@H.harness("toy.counter", prop="T", traced=())
def counter(mc, p):
    st = {"v": 0}

    def inc():
        v = st["v"]
        mc.point()
        st["v"] = v + 1
    mc.spawn(inc, "a")
    mc.spawn(inc, "b")
    mc.sleep(1)
    mc.observe(v=st["v"])


@H.oracle("toy.counter")
def _o3(x):
    x.require(x.obs.get("v") == 2, "lost-update", v=x.obs.get("v"))


def main():
    ok = True
    for name, want_bound in (("toy.abba", 1), ("toy.lostwake", 1), ("toy.counter", 1)):
        h = H.HARNESSES[name]
        found_at = None
        total = 0
        for b in (0, 1, 2):
            t0 = time.time()
            st, rest = H.explore(h, 0, [((), 0, None)], b, 10**9)
            total = st.executions
            print(name, "bound", b, "exec", st.executions, "viol", sorted(st.viol), "ends", st.ends,
                  "%.2fs" % (time.time() - t0))
            if st.viol and found_at is None:
                found_at = b
        if found_at != want_bound:
            print("SELFTEST FAIL", name, "found at", found_at, "expected", want_bound)
            ok = False
    import threading
    alive = [t for t in threading.enumerate() if t is not threading.main_thread()]
    if alive:
        print("SELFTEST FAIL leftover threads", alive)
        ok = False
    print("SELFTEST", "OK" if ok else "FAILED")
    return 0 if ok else 2


if __name__ == "__main__":
    sys.exit(main())

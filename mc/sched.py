"""Engine A core: a controlled scheduler over real threads.

One logical thread runs at a time (it holds the *baton*).  Every shim
synchronisation primitive and every traced source line calls into the scheduler,
which may hand the baton to another enabled thread.  An execution is a pure function
of its choice list.  See DESIGN.md section 2.
"""
import _thread
import sys
import threading as _rt          # the REAL threading module
import traceback
import weakref

EPS = 2.0 ** -20
HANG_TIMEOUT = 180.0             # real seconds the controller waits before giving up

_cur = None                      # Scheduler of the execution in progress (or None)
_tls = _rt.local()


class Abort(BaseException):
    """Raised inside logical threads to unwind them when an execution ends."""


class CheckerError(Exception):
    """The machinery itself failed (divergence, hang, seam problem): exit code 2."""


class Divergence(CheckerError):
    pass


def current():
    return _cur


def me():
    return getattr(_tls, "lt", None)


class LT(object):
    """Logical thread."""

    __slots__ = ("sched", "idx", "name", "client", "baton", "gone", "real", "pred",
                 "deadline", "on", "loc", "finished", "started", "exc", "target",
                 "kind", "atomic", "exited", "shim", "__weakref__", "logged", "held")

    def __init__(self, sched, idx, name, client, target):
        self.sched = sched
        self.idx = idx
        self.name = name
        self.client = client
        self.baton = _thread.allocate_lock()
        self.baton.acquire()
        self.gone = _thread.allocate_lock()
        self.gone.acquire()
        self.real = None
        self.pred = None
        self.deadline = None
        self.on = None
        self.loc = ("start", 0)
        self.kind = "start"
        self.finished = False
        self.started = False
        self.exited = False
        self.exc = None
        self.target = target
        self.atomic = 0
        self.shim = None
        self.logged = False
        self.held = []

    def __repr__(self):
        return "<LT %d %s>" % (self.idx, self.name)


class Scheduler(object):
    def __init__(self, prefix=(), horizon=100.0, step_cap=20000, order="rr",
                 expect=None, jump=False):
        self.prefix = list(prefix)
        self.horizon = horizon
        self.step_cap = step_cap
        self.order = order
        self.jump = jump
        self.expect = expect            # (position, rolling-hash) expected while replaying
        self.threads = []
        self.clock = 0.0
        self.phase = "new"
        self.running = None
        self.trace = []                 # [(n_enabled, choice, running_enabled)]
        self.hashes = []                # rolling hash at each choice point
        self.roll = 0
        self.steps = 0
        self.serial = 0
        self.end_reason = None
        self.end_detail = None
        self.final_table = None
        self.ctl = _thread.allocate_lock()
        self.ctl.acquire()
        self.ender = None
        self.log = []                   # harness event log
        self.seq = 0
        self.logrecords = []            # captured logging records
        self.fps = set()                # state fingerprints seen at choice points
        self.xh = 0                     # incremental hash of primitive states
        self.deaths = []                # threads that ended with an exception
        self.atexit = []                # callables registered with the atexit shim
        self.obs = {}
        self.internal_error = None
        self.lock_edges = set()         # lock-order graph edges (site_a, site_b)
        self.abstract = None            # optional harness callback for fingerprints
        self.forced = False             # set-up phase: default choice everywhere, nothing recorded
        self.n_points = 0
        self.waitfor = []
        self.lh = 0                     # incremental hash of thread locations
        self.in_pred = False            # evaluating wait predicates: shim operations are inert

    # ------------------------------------------------------------------ helpers
    def new_serial(self):
        self.serial += 1
        return self.serial

    def prim_changed(self, old, new):
        self.xh ^= old ^ new

    # ------------------------------------------------------------------ spawning
    def spawn(self, target, name=None, client=True):
        idx = len(self.threads)
        lt = LT(self, idx, name or ("t%d" % idx), client, target)
        self.threads.append(lt)
        real = _rt.Thread(target=self._bootstrap, args=(lt,), name="mc-%s" % lt.name)
        real.daemon = True
        lt.real = real
        real.start()
        return lt

    def _bootstrap(self, lt):
        _tls.lt = lt
        lt.baton.acquire()
        try:
            if self.phase == "run":
                lt.started = True
                try:
                    target = lt.target
                    lt.target = None
                    target()
                    del target
                except Abort:
                    pass
                except BaseException as e:  # noqa - worker death is an observation
                    lt.exc = (type(e).__name__, str(e)[:300],
                              "".join(traceback.format_exception(type(e), e, e.__traceback__))[-3000:])
                    e = None
                    if self.phase == "run":
                        self.deaths.append((lt.name, lt.exc))
            lt.target = None
            self._thread_exit(lt)
        except Abort:
            pass
        except BaseException as e:
            self.internal_error = "".join(traceback.format_exception(type(e), e, e.__traceback__))
        finally:
            lt.finished = True
            lt.exited = True
            _tls.lt = None
            lt.gone.release()

    def _thread_exit(self, lt):
        lt.finished = True
        lt.pred = None
        lt.deadline = None
        lt.on = None
        if self.phase != "run":
            return
        if all(t.finished for t in self.threads if t.client):
            self._end("done", lt, raise_abort=False)
            return
        nxt = self._pick(lt)
        if nxt is None:
            return
        self.running = nxt
        nxt.baton.release()

    # ------------------------------------------------------------------ ending
    def _table(self):
        out = []
        for t in self.threads:
            if t.finished:
                st = "finished"
            elif t.pred is None:
                st = "runnable"
            else:
                st = "blocked"
            on = t.on
            ondesc = None
            on_kind = None
            on_owner = None
            if on is not None:
                ondesc = getattr(on, "desc", None)
                ondesc = ondesc() if callable(ondesc) else repr(on)
                if isinstance(on, LT):
                    on_kind = "join"
                    on_owner = on.name
                elif isinstance(on, (Lock, RLock)):
                    on_kind = "lock"
                    o = on._owner
                    on_owner = o.name if isinstance(o, LT) else None
                    ondesc = "%s@%s" % (type(on).__name__, on._site)
                else:
                    on_kind = "other"
            out.append(dict(idx=t.idx, name=t.name, client=t.client, state=st, kind=t.kind,
                            loc=t.loc, on=ondesc, on_kind=on_kind, on_owner=on_owner,
                            deadline=t.deadline, started=t.started,
                            died=t.exc[0] if t.exc else None))
        return out

    def _end(self, reason, lt, raise_abort=True, detail=None):
        if self.phase == "run":
            self.phase = "abort"
            self.end_reason = reason
            self.end_detail = detail
            self.final_table = self._table()
            if reason in ("deadlock", "horizon", "livelock"):
                self.waitfor = self._waitfor()
            self.ender = lt
            self.ctl.release()
        if raise_abort:
            raise Abort()

    def _waitfor(self):
        """wait-for edges among unfinished blocked threads: (waiter, holder, what)."""
        edges = []
        for t in self.threads:
            if t.finished or t.pred is None or t.on is None:
                continue
            on = t.on
            owner = getattr(on, "_owner", None)
            if isinstance(on, LT):
                edges.append((t.name, on.name, "join"))
            elif isinstance(owner, LT):
                edges.append((t.name, owner.name, on.desc() if hasattr(on, "desc") else "lock"))
        return edges

    # ------------------------------------------------------------------ core
    def _pick(self, cur, yielding=False):
        """Return the thread to run next (possibly cur); ends the execution if none."""
        threads = self.threads
        self.in_pred = True
        try:
            return self._pick2(cur, threads, yielding)
        finally:
            self.in_pred = False

    def _pick2(self, cur, threads, yielding):
        while True:
            n = len(threads)
            start = cur.idx + 1 if yielding else cur.idx
            if start == n:
                start = 0
            enabled = []
            clock = self.clock
            if self.order == "rr":
                k = start
                for _ in range(n):
                    t = threads[k]
                    k += 1
                    if k == n:
                        k = 0
                    if t.finished:
                        continue
                    p = t.pred
                    if p is None or p() or (t.deadline is not None and clock >= t.deadline):
                        enabled.append(t)
            else:  # 'desc': current first, then the others by descending creation index
                for t in [cur] + [t for t in reversed(threads) if t is not cur]:
                    if t.finished:
                        continue
                    p = t.pred
                    if p is None or p() or (t.deadline is not None and clock >= t.deadline):
                        enabled.append(t)
            if enabled:
                break
            dl = [t.deadline for t in threads if not t.finished and t.deadline is not None]
            if not dl:
                clients = [t for t in threads if t.client and not t.finished]
                self._end("deadlock" if clients else "done", cur, raise_abort=not cur.finished)
                return None
            nxt_t = min(dl)
            if nxt_t > self.horizon:
                self._end("horizon", cur, raise_abort=not cur.finished)
                return None
            self.clock = nxt_t
        n_en = len(enabled)
        jumpable = None
        if self.jump and n_en >= 1:
            # TM-jump: offer "fire the earliest pending timer now" as an extra choice
            # only timed waits on library primitives may fire early; the harness's own
            # mc.sleep()/wait_until() are the environment's clock, not a slow thread
            cand = [t for t in threads if not t.finished and t.deadline is not None
                    and t not in enabled and t.deadline <= self.horizon
                    and t.kind not in ("sleep", "wait_until")]
            if cand:
                jumpable = min(cand, key=lambda t: (t.deadline, t.idx))
        total = n_en + (1 if jumpable is not None else 0)
        if total == 1 or self.forced:
            return enabled[0]
        c = self._choose(total, enabled[0] is cur and not cur.finished, cur)
        if c < n_en:
            return enabled[c]
        self.clock = max(self.clock, jumpable.deadline)
        return jumpable

    def _choose(self, n, running_enabled, cur):
        i = len(self.trace)
        # state fingerprint (reporting only)
        fp = self.xh ^ self.lh
        if self.abstract is not None:
            fp = (fp * 1000003) ^ hash(self.abstract())
        self.fps.add(fp & 0xFFFFFFFFFFFF)
        self.roll = ((self.roll * 1000003) ^ hash((cur.idx, cur.loc, n))) & 0xFFFFFFFFFFFFFFF
        if i < len(self.prefix):
            c = self.prefix[i]
            if c >= n:
                self._diverged("replayed choice %d at position %d but only %d enabled" % (c, i, n), cur)
            if self.expect is not None and self.expect[0] == i and self.expect[1] != self.roll:
                self._diverged("trace hash mismatch at position %d" % i, cur)
        else:
            c = 0
        self.trace.append((n, c, running_enabled))
        self.hashes.append(self.roll)
        return c

    def _diverged(self, msg, cur):
        self.internal_error = "replay divergence: " + msg
        self._end("divergence", cur, raise_abort=True, detail=msg)

    def switch(self, lt, pred=None, deadline=None, on=None, kind="point", loc=None, yielding=False):
        """Scheduling point for the running thread lt; returns when lt is chosen again."""
        if self.phase != "run":
            raise Abort()
        if lt.atomic and pred is None:
            return
        if self.running is not lt:
            # a logical thread running without the baton: machinery bug
            self.internal_error = "thread %r ran without the baton (running=%r)" % (lt, self.running)
            self._end("divergence", lt)
        lt.pred = pred
        lt.deadline = deadline
        lt.on = on
        lt.kind = kind
        if loc is None:
            loc = kind
        old = lt.loc
        if old is not loc:
            lt.loc = loc
            self.lh ^= hash((lt.idx, old)) ^ hash((lt.idx, loc))
        self.steps += 1
        if self.steps > self.step_cap:
            self._end("livelock", lt)
        nxt = self._pick(lt, yielding)
        if nxt is lt:
            lt.pred = None
            lt.deadline = None
            lt.on = None
            return
        self.running = nxt
        nxt.baton.release()
        lt.baton.acquire()
        if self.phase != "run":
            raise Abort()
        lt.pred = None
        lt.deadline = None
        lt.on = None

    # ------------------------------------------------------------------ client API
    def choose(self, n):
        """Harness-level environment choice in range(n) (default 0)."""
        if n <= 1:
            return 0
        lt = me()
        if self.phase != "run":
            raise Abort()
        return self._choose(n, None, lt)       # None: environment choice (free of cost)

    def point(self, loc=None):
        lt = me()
        if lt is None or lt.sched is not self:
            return
        self.switch(lt, kind="point", loc=loc)

    def sleep(self, dt):
        lt = me()
        self.switch(lt, pred=_never, deadline=self.clock + max(dt, EPS), kind="sleep")

    def wait_until(self, pred, timeout=None, what=None):
        lt = me()
        dl = None if timeout is None else self.clock + max(timeout, EPS)
        self.switch(lt, pred=pred, deadline=dl, kind="wait_until", on=what)
        return bool(pred())

    def emit(self, kind, **data):
        """Append to the totally ordered event log of this execution."""
        lt = me()
        self.seq += 1
        ev = dict(seq=self.seq, t=self.clock, th=lt.name if lt else "?", kind=kind)
        ev.update(data)
        self.log.append(ev)
        if lt is not None:
            lt.logged = True
        return self.seq

    # ------------------------------------------------------------------ controller
    def run(self, main_fn):
        """Run one execution to its end from the controller (real) thread."""
        global _cur
        if _cur is not None:
            raise CheckerError("nested execution")
        _cur = self
        self.phase = "run"
        try:
            main = self.spawn(main_fn, "main", client=True)
            self.running = main
            main.baton.release()
            if not self.ctl.acquire(True, HANG_TIMEOUT):
                raise CheckerError("execution hung (no end detected in %ss real time); threads=%r"
                                   % (HANG_TIMEOUT, self._table()))
            # the ender unwinds on its own
            ender = self.ender
            if ender is not None and not ender.exited:
                if not ender.gone.acquire(True, HANG_TIMEOUT):
                    raise CheckerError("ender %r did not unwind" % ender)
            k = 0
            while k < len(self.threads):
                t = self.threads[k]
                k += 1
                if t.exited or t is ender:
                    continue
                t.baton.release()
                if not t.gone.acquire(True, HANG_TIMEOUT):
                    raise CheckerError("thread %r did not unwind; table=%r" % (t, self.final_table))
            for t in self.threads:
                t.real.join(HANG_TIMEOUT)
                if t.real.is_alive():
                    raise CheckerError("real thread of %r still alive" % t)
        finally:
            self.phase = "over"
            _cur = None
        if self.internal_error:
            raise CheckerError(self.internal_error)
        return self


def _never():
    return False


# =========================================================================== shims
def _ctx():
    """(scheduler, logical thread) if the caller is a live logical thread of the
    current execution, else (None, None)."""
    s = _cur
    if s is None:
        return None, None
    lt = getattr(_tls, "lt", None)
    if lt is None or lt.sched is not s:
        return None, None
    return s, lt


class _Prim(object):
    __slots__ = ("_s", "_serial", "_site", "__weakref__")

    def _init(self):
        s = _cur
        self._s = s
        self._serial = s.new_serial() if s is not None else 0
        self._site = None

    def _live(self):
        """Return (sched, lt) when this primitive belongs to the running execution and the
        caller is one of its logical threads in the run phase; else None (inert)."""
        s = self._s
        if s is None or s is not _cur:
            return None
        lt = getattr(_tls, "lt", None)
        if lt is None or lt.sched is not s:
            return None
        if s.phase != "run" or s.in_pred:
            return None
        return s, lt

    def _aborting(self):
        s = self._s
        if s is not None and s is _cur and s.phase == "abort":
            lt = getattr(_tls, "lt", None)
            if lt is not None and lt.sched is s:
                return True
        return False


def _site_of(depth=2):
    """Creation site of a primitive, robust to unrelated edits: module:qualname+line offset
    inside the creating function."""
    f = sys._getframe(depth)
    for _ in range(6):
        fn = f.f_code.co_filename
        if "more_executors" in fn or "concurrent" in fn or "/checks/" in fn or "kit" in fn:
            return "%s:%s+%d" % (fn.rsplit("/", 1)[-1][:-3], f.f_code.co_qualname,
                                 f.f_lineno - f.f_code.co_firstlineno)
        if f.f_back is None:
            break
        f = f.f_back
    return "?"


class Lock(_Prim):
    __slots__ = ("_owner",)

    def __init__(self):
        self._init()
        self._owner = None
        if self._s is not None:
            self._site = _site_of()

    def desc(self):
        o = self._owner
        return "Lock#%d@%s(owner=%s)" % (self._serial, self._site, o.name if isinstance(o, LT) else o)

    def _set_owner(self, s, new):
        old = self._owner
        self._owner = new
        if s is not None:
            s.prim_changed(hash((self._serial, old.idx if isinstance(old, LT) else -1)),
                           hash((self._serial, new.idx if isinstance(new, LT) else -1)))

    def acquire(self, blocking=True, timeout=-1):
        live = self._live()
        if live is None:
            if self._aborting() and self._owner is not None and blocking:
                # would block for ever during teardown: just pretend
                return True
            if self._owner is None:
                self._owner = True
                return True
            return True if blocking else False
        s, lt = live
        if not blocking:
            s.switch(lt, kind="lock.try", loc=None)
            if self._owner is None:
                self._set_owner(s, lt)
                _note_acquire(s, lt, self)
                return True
            return False
        dl = None
        if timeout is not None and timeout >= 0:
            dl = s.clock + max(timeout, EPS)
        s.switch(lt, pred=self._free, deadline=dl, on=self, kind="lock.acquire")
        if self._owner is None:
            self._set_owner(s, lt)
            _note_acquire(s, lt, self)
            return True
        return False

    def _free(self):
        return self._owner is None

    def release(self):
        live = self._live()
        if live is None:
            self._owner = None
            return
        s, lt = live
        if self._owner is None:
            raise RuntimeError("release unlocked lock")
        _note_release(s, self._owner, self)
        self._set_owner(s, None)

    def locked(self):
        return self._owner is not None

    def __enter__(self):
        self.acquire()
        return True

    def __exit__(self, *a):
        self.release()

    def _at_fork_reinit(self):
        self._owner = None


class RLock(_Prim):
    __slots__ = ("_owner", "_count")

    def __init__(self):
        self._init()
        self._owner = None
        self._count = 0
        if self._s is not None:
            self._site = _site_of()

    def desc(self):
        o = self._owner
        return "RLock#%d@%s(owner=%s)" % (self._serial, self._site, o.name if isinstance(o, LT) else o)

    def _set_owner(self, s, new):
        old = self._owner
        self._owner = new
        if s is not None:
            s.prim_changed(hash((self._serial, old.idx if isinstance(old, LT) else -1)),
                           hash((self._serial, new.idx if isinstance(new, LT) else -1)))

    def _free_for(self, lt):
        return self._owner is None or self._owner is lt

    def acquire(self, blocking=True, timeout=-1):
        live = self._live()
        if live is None:
            self._count += 1
            if self._owner is None:
                self._owner = True
            return True
        s, lt = live
        if self._owner is lt:
            self._count += 1
            return True
        if not blocking:
            s.switch(lt, kind="rlock.try")
            if self._owner is None:
                self._set_owner(s, lt)
                self._count = 1
                _note_acquire(s, lt, self)
                return True
            return False
        dl = None
        if timeout is not None and timeout >= 0:
            dl = s.clock + max(timeout, EPS)
        s.switch(lt, pred=self._is_free, deadline=dl, on=self, kind="rlock.acquire")
        if self._owner is None:
            self._set_owner(s, lt)
            self._count = 1
            _note_acquire(s, lt, self)
            return True
        return False

    def _is_free(self):
        return self._owner is None

    def release(self):
        live = self._live()
        if live is None:
            if self._count > 0:
                self._count -= 1
            if self._count == 0:
                self._owner = None
            return
        s, lt = live
        if self._owner is not lt:
            raise RuntimeError("cannot release un-acquired lock")
        self._count -= 1
        if self._count == 0:
            _note_release(s, lt, self)
            self._set_owner(s, None)

    def __enter__(self):
        self.acquire()
        return True

    def __exit__(self, *a):
        self.release()

    # used by Condition
    def _is_owned(self):
        lt = getattr(_tls, "lt", None)
        return self._owner is lt and lt is not None

    def _release_save(self):
        live = self._live()
        st = (self._count, self._owner)
        self._count = 0
        if live is not None:
            _note_release(live[0], self._owner, self)
            self._set_owner(live[0], None)
        else:
            self._owner = None
        return st

    def _acquire_restore(self, st):
        live = self._live()
        self._count = st[0]
        if live is not None:
            self._set_owner(live[0], st[1])
            _note_acquire(live[0], st[1], self)
        else:
            self._owner = st[1]

    def _at_fork_reinit(self):
        self._owner = None
        self._count = 0


def _note_acquire(s, lt, lock):
    # lock-order graph over creation sites (reported by C04)
    if not isinstance(lt, LT):
        return
    hl = lt.held
    for other in hl:
        if other is not lock:
            s.lock_edges.add((other._site, lock._site))
    hl.append(lock)


def _note_release(s, lt, lock):
    if not isinstance(lt, LT):
        return
    try:
        lt.held.remove(lock)
    except ValueError:
        pass


class Condition(_Prim):
    __slots__ = ("_lock", "_waiters", "acquire", "release")

    def __init__(self, lock=None):
        self._init()
        if lock is None:
            lock = RLock()
        self._lock = lock
        self.acquire = lock.acquire
        self.release = lock.release
        self._waiters = []

    def desc(self):
        return "Condition#%d" % self._serial

    def __enter__(self):
        return self._lock.__enter__()

    def __exit__(self, *a):
        return self._lock.__exit__(*a)

    def _is_owned(self):
        lk = self._lock
        if hasattr(lk, "_is_owned"):
            return lk._is_owned()
        return lk._owner is getattr(_tls, "lt", None)

    def wait(self, timeout=None):
        live = self._live()
        if live is None:
            if self._aborting():
                raise Abort()
            return True
        s, lt = live
        if not self._is_owned():
            raise RuntimeError("cannot wait on un-acquired lock")
        w = [False]
        self._waiters.append(w)
        lk = self._lock
        if isinstance(lk, RLock):
            saved = lk._release_save()
        else:
            lk.release()
            saved = None
        dl = None if timeout is None else s.clock + max(timeout, EPS)
        try:
            s.switch(lt, pred=lambda: w[0], deadline=dl, on=self, kind="cond.wait")
            got = w[0]
            if not got:
                try:
                    self._waiters.remove(w)
                except ValueError:
                    pass
        finally:
            if s.phase == "run":
                if isinstance(lk, RLock):
                    s.switch(lt, pred=lk._is_free, on=lk, kind="cond.reacquire")
                    lk._acquire_restore(saved)
                else:
                    lk.acquire()
        return got

    def wait_for(self, predicate, timeout=None):
        s = self._s
        endtime = None
        result = predicate()
        while not result:
            if timeout is not None:
                if endtime is None:
                    endtime = s.clock + timeout
                waittime = endtime - s.clock
                if waittime <= 0:
                    break
                self.wait(waittime)
            else:
                self.wait(None)
            result = predicate()
        return result

    def notify(self, n=1):
        live = self._live()
        if live is None:
            return
        if not self._is_owned():
            raise RuntimeError("cannot notify on un-acquired lock")
        ws = self._waiters
        k = 0
        while ws and k < n:
            w = ws.pop(0)
            w[0] = True
            k += 1

    def notify_all(self):
        self.notify(len(self._waiters) + 1)

    notifyAll = notify_all


class Event(_Prim):
    """threading.Event semantics, including the one that matters for pulse patterns: set()
    wakes every thread that is waiting at that moment, even if the flag is cleared again before
    the waiter gets to run (the real implementation notifies a condition)."""
    __slots__ = ("_flag", "_waiters")

    def __init__(self):
        self._init()
        self._flag = False
        self._waiters = []

    def desc(self):
        return "Event#%d(%s)" % (self._serial, self._flag)

    def is_set(self):
        return self._flag

    isSet = is_set

    def _set_flag(self, s, v):
        if v != self._flag:
            s.prim_changed(hash((self._serial, self._flag)), hash((self._serial, v)))
            self._flag = v

    def set(self):
        live = self._live()
        if live is None:
            # stale or foreign caller.  A stale primitive must stay inert so that late weakref
            # callbacks of a previous execution cannot disturb the current one.
            if self._s is None:
                self._flag = True
            return
        s, lt = live
        s.switch(lt, kind="event.set")
        self._set_flag(s, True)
        for w in self._waiters:
            w[0] = True
        del self._waiters[:]

    def clear(self):
        live = self._live()
        if live is None:
            if self._s is None:
                self._flag = False
            return
        s, lt = live
        s.switch(lt, kind="event.clear")
        self._set_flag(s, False)

    def wait(self, timeout=None):
        live = self._live()
        if live is None:
            if self._aborting():
                raise Abort()
            return self._flag
        s, lt = live
        if self._flag:
            # already set: returns at once, but acts as a yield so that polling loops cannot
            # starve the other threads under the default schedule
            s.switch(lt, kind="event.wait", yielding=True)
            return True
        dl = None if timeout is None else s.clock + max(timeout, EPS)
        w = [False]
        self._waiters.append(w)
        try:
            s.switch(lt, pred=lambda: w[0], deadline=dl, on=self, kind="event.wait")
        finally:
            if not w[0]:
                try:
                    self._waiters.remove(w)
                except ValueError:
                    pass
        return w[0]

    def _at_fork_reinit(self):
        pass


class Semaphore(_Prim):
    __slots__ = ("_value",)

    def __init__(self, value=1):
        self._init()
        if value < 0:
            raise ValueError("semaphore initial value must be >= 0")
        self._value = value

    def desc(self):
        return "Semaphore#%d(%d)" % (self._serial, self._value)

    def acquire(self, blocking=True, timeout=None):
        live = self._live()
        if live is None:
            if self._value > 0:
                self._value -= 1
                return True
            if self._aborting() and blocking:
                raise Abort()
            return False
        s, lt = live
        if not blocking:
            s.switch(lt, kind="sem.try")
            if self._value > 0:
                self._value -= 1
                return True
            return False
        dl = None if timeout is None else s.clock + max(timeout, EPS)
        s.switch(lt, pred=lambda: self._value > 0, deadline=dl, on=self, kind="sem.acquire")
        if self._value > 0:
            self._value -= 1
            return True
        return False

    __enter__ = acquire

    def release(self, n=1):
        live = self._live()
        if live is not None:
            live[0].switch(live[1], kind="sem.release")
        self._value += n

    def __exit__(self, *a):
        self.release()


class BoundedSemaphore(Semaphore):
    __slots__ = ("_initial",)

    def __init__(self, value=1):
        Semaphore.__init__(self, value)
        self._initial = value

    def release(self, n=1):
        if self._value + n > self._initial:
            raise ValueError("Semaphore released too many times")
        Semaphore.release(self, n)


class Thread(object):
    """Shim of threading.Thread: a logical thread of the current execution."""

    _counter = 0

    def __init__(self, group=None, target=None, name=None, args=(), kwargs=None, daemon=None):
        s = _cur
        self._s = s
        self._serial = s.new_serial() if s is not None else 0
        self._target = target
        self._args = args
        self._kwargs = kwargs or {}
        if name is None:
            Thread._counter += 1
            name = "Thread-%d" % (self._serial,)
            if target is not None:
                try:
                    name += " (%s)" % target.__name__
                except AttributeError:
                    pass
        self._name = str(name)
        self._daemon = bool(daemon) if daemon is not None else False
        self._lt = None
        self._started = False
        self._client = False
        self.creator = getattr(me(), "name", None)

    def __hash__(self):
        return self._serial

    def __repr__(self):
        return "<shim Thread %s>" % self._name

    @property
    def name(self):
        return self._name

    @name.setter
    def name(self, v):
        self._name = str(v)
        if self._lt is not None:
            self._lt.name = self._name

    def getName(self):
        return self._name

    def setName(self, v):
        self.name = v

    @property
    def daemon(self):
        return self._daemon

    @daemon.setter
    def daemon(self, v):
        if self._started:
            raise RuntimeError("cannot set daemon status of active thread")
        self._daemon = bool(v)

    def isDaemon(self):
        return self._daemon

    def setDaemon(self, v):
        self.daemon = v

    @property
    def ident(self):
        return None if self._lt is None else 1000 + self._lt.idx

    native_id = ident

    def run(self):
        try:
            if self._target is not None:
                self._target(*self._args, **self._kwargs)
        finally:
            del self._target, self._args, self._kwargs

    def start(self):
        if self._started:
            raise RuntimeError("threads can only be started once")
        s, lt = _ctx()
        if s is None or self._s is not s or s.phase != "run":
            if self._s is not None and self._s is _cur and self._s.phase == "abort":
                self._started = True
                return
            raise CheckerError("shim Thread.start() outside an execution (%r)" % self._name)
        self._started = True
        s.switch(lt, kind="thread.start")
        self._lt = s.spawn(self.run, name=self._name, client=self._client)
        self._lt.shim = weakref.ref(self)

    def join(self, timeout=None):
        if not self._started:
            raise RuntimeError("cannot join thread before it is started")
        s, lt = _ctx()
        if s is None or self._s is not s or s.phase != "run":
            if s is not None and s.phase == "abort":
                raise Abort()
            return
        tgt = self._lt
        if tgt is None:
            return
        if tgt is lt:
            raise RuntimeError("cannot join current thread")
        dl = None if timeout is None else s.clock + max(timeout, EPS)
        s.switch(lt, pred=lambda: tgt.finished, deadline=dl, on=tgt, kind="thread.join")

    def is_alive(self):
        return self._started and self._lt is not None and not self._lt.finished

    isAlive = is_alive


class Timer(Thread):
    def __init__(self, interval, function, args=None, kwargs=None):
        Thread.__init__(self)
        self.interval = interval
        self.function = function
        self.args = args if args is not None else []
        self.kwargs = kwargs if kwargs is not None else {}
        self.finished = Event()

    def cancel(self):
        self.finished.set()

    def run(self):
        self.finished.wait(self.interval)
        if not self.finished.is_set():
            self.function(*self.args, **self.kwargs)
        self.finished.set()


class Empty(Exception):
    pass


class Full(Exception):
    pass


class SimpleQueue(_Prim):
    __slots__ = ("_items", "_maxsize")

    def __init__(self, maxsize=0):
        self._init()
        from collections import deque
        self._items = deque()
        self._maxsize = maxsize

    def desc(self):
        return "Queue#%d(len=%d)" % (self._serial, len(self._items))

    def put(self, item, block=True, timeout=None):
        live = self._live()
        if live is not None:
            s, lt = live
            if self._maxsize > 0:
                dl = None if timeout is None else s.clock + max(timeout, EPS)
                if not block:
                    s.switch(lt, kind="queue.put")
                    if len(self._items) >= self._maxsize:
                        raise _queue_exc("Full")
                else:
                    s.switch(lt, pred=lambda: len(self._items) < self._maxsize, deadline=dl,
                             on=self, kind="queue.put")
                    if len(self._items) >= self._maxsize:
                        raise _queue_exc("Full")
            else:
                s.switch(lt, kind="queue.put")
        self._items.append(item)

    def put_nowait(self, item):
        return self.put(item, block=False)

    def get(self, block=True, timeout=None):
        live = self._live()
        if live is None:
            if self._items:
                return self._items.popleft()
            if self._aborting() and block:
                raise Abort()
            raise _queue_exc("Empty")
        s, lt = live
        if not block:
            s.switch(lt, kind="queue.get_nowait")
        else:
            dl = None if timeout is None else s.clock + max(timeout, EPS)
            s.switch(lt, pred=lambda: bool(self._items), deadline=dl, on=self, kind="queue.get")
        if self._items:
            return self._items.popleft()
        raise _queue_exc("Empty")

    def get_nowait(self):
        return self.get(block=False)

    def empty(self):
        return not self._items

    def qsize(self):
        return len(self._items)

    def full(self):
        return self._maxsize > 0 and len(self._items) >= self._maxsize

    def task_done(self):
        pass

    def join(self):
        pass


def _queue_exc(name):
    import queue as _q
    return getattr(_q, name)()


Queue = SimpleQueue


# --------------------------------------------------------------------------- misc
def monotonic():
    s = _cur
    if s is None:
        return 0.0
    return s.clock


def wall_time():
    return 1.0e9 + monotonic()


def sleep(dt):
    s, lt = _ctx()
    if s is None:
        return
    if s.phase != "run":
        raise Abort()
    s.switch(lt, pred=_never, deadline=s.clock + max(dt, EPS), kind="sleep")


def get_ident():
    lt = getattr(_tls, "lt", None)
    if lt is None:
        return _thread.get_ident()
    return 1000 + lt.idx


def current_thread():
    lt = getattr(_tls, "lt", None)
    if lt is not None and lt.shim is not None:
        sh = lt.shim()
        if sh is not None:
            return sh
    return _rt.current_thread()

"""Seams: replace every source of nondeterminism reachable from the library by shims
owned by the scheduler.  Discovered, not hard-coded (DESIGN.md section 2.2)."""
import copy
import gc
import importlib
import logging
import os
import pkgutil
import sys
import threading as _rt
import time as _rtime
import queue as _rqueue
import atexit as _ratexit
import types

from . import sched, trace

REPO = os.environ.get("VERIF_REPO", "/repo")

_installed = False
LIB = {}            # short name -> module
_instances = []     # (obj, saved __dict__ snapshot) module-level instances of library classes
_prim_slots = []    # (owner dict, key, shim class) module-level / instance-level primitives


class _NS(object):
    """A stand-in for a stdlib module: shim attributes first, real module as fall-back for
    everything that is not a source of nondeterminism."""

    def __init__(self, real, **shims):
        self.__dict__["_real"] = real
        self.__dict__.update(shims)

    def __getattr__(self, name):
        return getattr(self.__dict__["_real"], name)


class _AtexitShim(object):
    def register(self, fn, *a, **k):
        s = sched.current()
        if s is not None:
            s.atexit.append((fn, a, k))
        return fn

    def unregister(self, fn):
        s = sched.current()
        if s is not None:
            s.atexit[:] = [x for x in s.atexit if x[0] is not fn]


THREADING_NS = _NS(
    _rt,
    Lock=sched.Lock, RLock=sched.RLock, Event=sched.Event, Condition=sched.Condition,
    Semaphore=sched.Semaphore, BoundedSemaphore=sched.BoundedSemaphore, Thread=sched.Thread,
    Timer=sched.Timer, get_ident=sched.get_ident, current_thread=sched.current_thread,
    _register_atexit=lambda *a, **k: None,
)
TIME_NS = _NS(_rtime, monotonic=sched.monotonic, time=sched.wall_time, sleep=sched.sleep,
              perf_counter=sched.monotonic)
QUEUE_NS = _NS(_rqueue, SimpleQueue=sched.SimpleQueue, Queue=sched.Queue,
               LifoQueue=sched.Queue, PriorityQueue=sched.Queue)
ATEXIT_NS = _AtexitShim()

_REAL_TO_SHIM = None
_REAL_INSTANCE_TYPES = None


def _tables():
    global _REAL_TO_SHIM, _REAL_INSTANCE_TYPES
    _REAL_TO_SHIM = {
        id(_rt.Lock): sched.Lock, id(_rt.RLock): sched.RLock, id(_rt.Event): sched.Event,
        id(_rt.Condition): sched.Condition, id(_rt.Semaphore): sched.Semaphore,
        id(_rt.BoundedSemaphore): sched.BoundedSemaphore, id(_rt.Thread): sched.Thread,
        id(_rt.Timer): sched.Timer, id(_rqueue.Queue): sched.Queue,
        id(_rqueue.SimpleQueue): sched.SimpleQueue, id(_rtime.monotonic): sched.monotonic,
        id(_rtime.time): sched.wall_time, id(_rtime.sleep): sched.sleep,
        id(_rtime.perf_counter): sched.monotonic,
        id(_rt.get_ident): sched.get_ident, id(_rt.current_thread): sched.current_thread,
        id(_rt): THREADING_NS, id(_rtime): TIME_NS, id(_rqueue): QUEUE_NS,
        id(_ratexit): ATEXIT_NS,
    }
    _REAL_INSTANCE_TYPES = {
        type(_rt.Lock()): sched.Lock, type(_rt.RLock()): sched.RLock,
        _rt.Event: sched.Event, _rt.Condition: sched.Condition,
        _rt.Semaphore: sched.Semaphore, _rt.BoundedSemaphore: sched.BoundedSemaphore,
        sched.Lock: sched.Lock, sched.RLock: sched.RLock, sched.Event: sched.Event,
        sched.Condition: sched.Condition, sched.Semaphore: sched.Semaphore,
    }


def _serial_of(obj):
    d = obj.__dict__
    v = d.get("_mc_serial")
    if v is None:
        s = sched.current()
        if s is not None:
            v = s.new_serial()
        else:
            _serial_of.n += 1
            v = -_serial_of.n
        d["_mc_serial"] = v
    return v


_serial_of.n = 0


def _future_hash(self):
    return _serial_of(self)


def _capture_log(self, level, msg, args, exc_info=None, extra=None, stack_info=False, stacklevel=1):
    s = sched.current()
    if s is None:
        return
    exc = None
    if exc_info:
        if isinstance(exc_info, BaseException):
            exc = exc_info
        elif isinstance(exc_info, tuple):
            exc = exc_info[1]
        else:
            exc = sys.exc_info()[1]
    if isinstance(exc, sched.Abort) or s.phase != "run":
        return
    s.logrecords.append(dict(logger=self.name, level=level, msg=str(msg)[:200],
                             exc_type=type(exc).__name__ if exc is not None else None,
                             exc_str=str(exc)[:200] if exc is not None else None,
                             seq=s.seq, t=s.clock))


def install(prometheus=False, fakeprom_path=None):
    """Import the library from REPO's working tree and put every seam in place."""
    global _installed
    if _installed:
        return LIB
    _tables()
    os.environ["MORE_EXECUTORS_PROMETHEUS"] = "1" if prometheus else "0"
    os.environ.pop("MORE_EXECUTORS_DEBUG", None)
    if prometheus and fakeprom_path:
        sys.path.insert(0, fakeprom_path)
    sys.path.insert(0, REPO)
    for k in [k for k in sys.modules if k == "more_executors" or k.startswith("more_executors.")]:
        del sys.modules[k]
    import more_executors
    if not os.path.realpath(more_executors.__file__).startswith(os.path.realpath(REPO) + os.sep):
        raise sched.CheckerError("library imported from %s, not from %s" % (more_executors.__file__, REPO))
    for m in pkgutil.walk_packages(more_executors.__path__, "more_executors."):
        try:
            importlib.import_module(m.name)
        except Exception as e:  # optional modules (prometheus) may be missing
            if "prometheus" not in m.name:
                raise
    import concurrent.futures._base as _base
    import concurrent.futures.thread as _cft

    # --- stdlib concurrent.futures
    _base.threading = THREADING_NS
    _base.time = TIME_NS
    _base.id = _serial_of
    _base.Future.__hash__ = _future_hash
    _cft.threading = THREADING_NS
    _cft.queue = QUEUE_NS
    _cft._global_shutdown_lock = _NullLock()

    # --- logging: capture without formatting and without real locks being held across
    # scheduling points
    logging.Logger._log = _capture_log

    # --- library modules
    for name, mod in list(sys.modules.items()):
        if mod is None or not (name == "more_executors" or name.startswith("more_executors.")):
            continue
        if name.startswith("more_executors._impl."):
            LIB[name[len("more_executors._impl."):]] = mod
        _patch_module(mod)
    _old_hook = sys.unraisablehook

    def _hook(u):
        if isinstance(u.exc_value, sched.Abort):
            return
        _old_hook(u)
    sys.unraisablehook = _hook
    trace.install()
    trace.register_modules(LIB)
    _installed = True
    audit()
    return LIB


class _NullLock(object):
    def acquire(self, *a, **k):
        return True

    def release(self):
        pass

    def __enter__(self):
        return True

    def __exit__(self, *a):
        pass

    def _at_fork_reinit(self):
        pass

    def locked(self):
        return False


def _patch_module(mod):
    d = vars(mod)
    for key, val in list(d.items()):
        if key.startswith("__") and key.endswith("__"):
            continue
        sh = _REAL_TO_SHIM.get(id(val))
        if sh is not None:
            d[key] = sh
            continue
        ty = type(val)
        if ty in _REAL_INSTANCE_TYPES:
            _prim_slots.append((d, key, _REAL_INSTANCE_TYPES[ty]))
            continue
        # module-level instance of a library class: remember its state, fix primitives inside
        if getattr(ty, "__module__", "").startswith("more_executors") and hasattr(val, "__dict__") \
                and not isinstance(val, (type, types.FunctionType, types.ModuleType)):
            _remember_instance(val, 0)


def _remember_instance(obj, depth):
    if any(o is obj for o, _ in _instances) or depth > 3:
        return
    snap = {}
    for k, v in list(vars(obj).items()):
        ty = type(v)
        if ty in _REAL_INSTANCE_TYPES:
            _prim_slots.append((vars(obj), k, _REAL_INSTANCE_TYPES[ty]))
        elif isinstance(v, (bool, int, float, str, type(None))):
            snap[k] = v
        elif isinstance(v, (list, dict, set)) :
            snap[k] = copy.copy(v)
        elif getattr(ty, "__module__", "").startswith("more_executors") and hasattr(v, "__dict__") \
                and not isinstance(v, (type, types.FunctionType, types.ModuleType)):
            _remember_instance(v, depth + 1)
    _instances.append((obj, snap))


def fresh():
    """Per-execution reset of process-wide state (called with the new scheduler current)."""
    for d, key, cls in _prim_slots:
        d[key] = cls()
    for obj, snap in _instances:
        od = vars(obj)
        for k, v in snap.items():
            od[k] = copy.copy(v) if isinstance(v, (list, dict, set)) else v
    # process-wide counters that end up in thread names
    import itertools
    import concurrent.futures.thread as _cft
    _cft.ThreadPoolExecutor._counter = itertools.count().__next__
    # weak reference to the shared f_timeout executor
    ft = LIB.get("futures.timeout")
    if ft is not None and hasattr(ft, "EXECUTOR_REF"):
        ft.EXECUTOR_REF = None


def audit():
    """Fail (CheckerError) if any real primitive is still reachable by name."""
    import concurrent.futures._base as _base
    import concurrent.futures.thread as _cft
    bad = []
    mods = [m for n, m in sys.modules.items()
            if m is not None and (n.startswith("more_executors"))] + [_base, _cft]
    for mod in mods:
        for key, val in vars(mod).items():
            if key.startswith("__") and key.endswith("__"):
                continue
            if id(val) in _REAL_TO_SHIM and not isinstance(val, _NS) and val is not ATEXIT_NS:
                if _REAL_TO_SHIM[id(val)] is not val:
                    bad.append("%s.%s" % (mod.__name__, key))
            ty = type(val)
            if ty in (type(_rt.Lock()), type(_rt.RLock()), _rt.Event, _rt.Condition, _rt.Semaphore):
                if not any(d is vars(mod) and k == key for d, k, _ in _prim_slots):
                    bad.append("%s.%s (instance)" % (mod.__name__, key))
    if bad:
        raise sched.CheckerError("seam audit failed: real primitives reachable: %s" % ", ".join(bad))

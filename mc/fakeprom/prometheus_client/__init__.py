"""Stand-in for prometheus_client used only by the C20 check: Counter / Gauge with
labels().inc()/dec(), values kept in a process-wide registry that the checker resets per
execution and reads at quiescent points."""

REGISTRY = {}      # (metric name, ((label, value), ...)) -> value
MINIMUM = {}       # same key -> minimum value ever seen
KIND = {}          # metric name -> 'counter' | 'gauge'


def reset():
    REGISTRY.clear()
    MINIMUM.clear()


def snapshot():
    return dict(REGISTRY)


class _Child(object):
    def __init__(self, key):
        self._key = key

    def _add(self, v):
        n = REGISTRY.get(self._key, 0) + v
        REGISTRY[self._key] = n
        if n < MINIMUM.get(self._key, 0):
            MINIMUM[self._key] = n

    def inc(self, amount=1):
        self._add(amount)

    def dec(self, amount=1):
        self._add(-amount)

    def set(self, value):
        REGISTRY[self._key] = value


class _Metric(object):
    kind = None

    def __init__(self, name, documentation="", labelnames=(), namespace="", **_kw):
        self._name = (namespace + "_" if namespace else "") + name
        self._labelnames = tuple(labelnames)
        KIND[self._name] = self.kind

    def labels(self, *args, **kwargs):
        if args:
            kwargs = dict(zip(self._labelnames, args))
        if set(kwargs) != set(self._labelnames):
            raise ValueError("Incorrect label names: %r vs %r" % (sorted(kwargs), self._labelnames))
        return _Child((self._name, tuple(sorted((k, str(v)) for k, v in kwargs.items()))))

    def inc(self, amount=1):
        _Child((self._name, ())).inc(amount)

    def dec(self, amount=1):
        _Child((self._name, ())).dec(amount)


class Counter(_Metric):
    kind = "counter"

    def dec(self, amount=1):
        raise AttributeError("counters cannot be decremented")


class Gauge(_Metric):
    kind = "gauge"

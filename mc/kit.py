"""Harness kit: recording base executor, probe futures, scripted user code."""
from concurrent.futures import Executor, Future, CancelledError, TimeoutError as FTimeout  # noqa

from . import sched


class E(Exception):
    """Scripted failure; the tag makes every instance recognisable in logs."""

    def __init__(self, tag="E"):
        Exception.__init__(self, tag)
        self.tag = tag


class E2(Exception):
    """A scripted failure *outside* any configured exception base."""

    def __init__(self, tag="E2"):
        Exception.__init__(self, tag)
        self.tag = tag


class EqE(Exception):
    """All instances compare equal (value-style __eq__): identity must still be preserved."""

    def __init__(self, tag="EqE"):
        Exception.__init__(self, tag)
        self.tag = tag

    def __eq__(self, other):
        return isinstance(other, EqE)

    def __hash__(self):
        return 11


class FalsyE(E):
    """A scripted failure (inside the E family) whose instances are falsy."""

    def __len__(self):
        return 0


class KE(KeyError):
    def __init__(self, tag="KE"):
        KeyError.__init__(self, tag)
        self.tag = tag


def brief(v, depth=0):
    """A deterministic, address-free rendering of a value for the event log."""
    if isinstance(v, (bool, int, float, str, type(None))):
        return v
    if isinstance(v, BaseException):
        return "%s(%s)" % (type(v).__name__, getattr(v, "tag", str(v)[:40]))
    if depth < 3:
        if isinstance(v, tuple):
            return tuple(brief(x, depth + 1) for x in v)
        if isinstance(v, list):
            return [brief(x, depth + 1) for x in v]
        if isinstance(v, dict):
            return tuple(sorted((str(k), brief(x, depth + 1)) for k, x in v.items()))
    lab = getattr(v, "label", None)
    if isinstance(lab, str):
        return "<%s>" % lab
    return "<%s>" % type(v).__name__


def snapshot(f, timeout=0):
    """(state, value) of a future without blocking: pending / cancelled / ok / err."""
    if not f.done():
        return ("pending", None)
    if f.cancelled():
        return ("cancelled", None)
    try:
        ex = f.exception(timeout=0)
    except CancelledError:
        return ("cancelled", None)
    if ex is not None:
        return ("err", brief(ex))
    return ("ok", brief(f.result(timeout=0)))


class ProbeFuture(Future):
    """A stdlib Future that logs every cancel() reaching it."""

    def __init__(self, mc, label):
        Future.__init__(self)
        self.mc = mc
        self.label = label
        self.cancel_calls = 0

    def cancel(self):
        self.cancel_calls += 1
        was = self._state
        r = Future.cancel(self)
        self.mc.emit("probe.cancel", f=self.label, ret=r, was=was)
        return r

    def _invoke_callbacks(self):
        # the state is terminal here and no callback has run yet
        self.mc.emit("probe.done", f=self.label, state=self._state)
        Future._invoke_callbacks(self)


class StubbornFuture(ProbeFuture):
    """Refuses the first `refusals` cancel() calls (like work that is momentarily
    uncancellable), then behaves normally."""

    def __init__(self, mc, label, refusals=1):
        ProbeFuture.__init__(self, mc, label)
        self.refusals = refusals

    def cancel(self):
        if self.refusals > 0 and not self.done():
            self.refusals -= 1
            self.cancel_calls += 1
            self.mc.emit("probe.cancel", f=self.label, ret=False, was="REFUSING")
            return False
        return ProbeFuture.cancel(self)


class Item(object):
    __slots__ = ("idx", "fn", "args", "kwargs", "future", "state")

    def __init__(self, idx, fn, args, kwargs, future):
        self.idx = idx
        self.fn = fn
        self.args = args
        self.kwargs = kwargs
        self.future = future
        self.state = "queued"


class ManualExecutor(Executor):
    """Recording base executor.

    mode 'inline': runs the callable inside submit() (like SyncExecutor);
    mode 'manual': harness threads call run(i)/run_next()/worker_loop();
    mode 'hold'  : futures are completed by the harness directly (complete(i, ...)),
                   the callable is never run.
    """

    def __init__(self, mc, mode="manual", label="b", forget=False, honour_cancel_futures=True):
        self.mc = mc
        self.honour_cancel_futures = honour_cancel_futures
        self.submit_delay = 0.0         # virtual time every submit() takes
        self.fail_submits = 0           # the next n submit() calls raise TypeError
        self.precancel_next = 0         # the next n submit() calls return an already cancelled future
        self.drain_on_shutdown = False  # shutdown(wait=True) runs what is still queued (like joining a pool)
        self.lenient_shutdown = False   # like a user-written Executor that only overrides submit(): the
                                        # inherited shutdown() is a no-op and submit() keeps accepting
        self.mode = mode
        self.forget = forget            # drop fn/args/future of finished items (like real pools do)
        self.lab = label
        self.items = []
        self.shutdowns = []
        self.down = False
        self.workers = 0
        self.active_workers = 0

    # -- Executor API
    def submit(self, fn, *args, **kwargs):
        if self.down:
            self.mc.emit("base.refuse", b=self.lab)
            raise RuntimeError("cannot schedule new futures after shutdown")
        if self.fail_submits > 0:
            self.fail_submits -= 1
            self.mc.emit("base.submit.fault", b=self.lab)
            raise TypeError("can't start new thread (scripted delegate fault)")
        if self.submit_delay:
            self.mc.sleep(self.submit_delay)
        idx = len(self.items)
        f = ProbeFuture(self.mc, "%s%d" % (self.lab, idx))
        it = Item(idx, fn, args, kwargs, f)
        self.items.append(it)
        self.mc.emit("base.submit", b=self.lab, i=idx, fn=brief(getattr(fn, "label", None) or getattr(fn, "__name__", "fn")),
                     args=brief(args), kwargs=brief(kwargs))
        if self.precancel_next > 0:
            self.precancel_next -= 1
            Future.cancel(f)
            f.set_running_or_notify_cancel()
            it.state = "cancelled"
        elif self.mode == "inline":
            self._run(it)
        return f

    def shutdown(self, wait=True, **kwargs):
        self.mc.emit("base.shutdown", b=self.lab, wait=wait, kwargs=brief(kwargs))
        self.shutdowns.append((wait, dict(kwargs)))
        if self.lenient_shutdown:
            return
        self.down = True
        if kwargs.get("cancel_futures") and self.honour_cancel_futures:
            for it in self.items:
                if it.state == "queued":
                    it.future.cancel()
        if wait and self.drain_on_shutdown:
            while True:
                it = self.next_queued()
                if it is None:
                    break
                self._run(it)
        if wait and self.workers:
            self.mc.wait_until(lambda: self.active_workers == 0)

    # -- driving
    def _run(self, it):
        f = it.future
        if it.state != "queued":
            return False
        it.state = "claimed"        # atomically (no scheduling point since the test)
        if not f.set_running_or_notify_cancel():
            it.state = "cancelled"
            return False
        it.state = "running"
        self.mc.emit("base.start", b=self.lab, i=it.idx)
        try:
            r = it.fn(*it.args, **it.kwargs)
        except sched.Abort:
            raise
        except BaseException as e:
            it.state = "done"
            self.mc.emit("base.end", b=self.lab, i=it.idx, out=("err", brief(e)))
            f.set_exception(e)
            e = None
        else:
            it.state = "done"
            self.mc.emit("base.end", b=self.lab, i=it.idx, out=("ok", brief(r)))
            f.set_result(r)
        self.mc.emit("base.resolved", b=self.lab, i=it.idx)
        if self.forget:
            it.fn = it.args = it.kwargs = it.future = None
        return True

    def run(self, i):
        self.mc.wait_until(lambda: len(self.items) > i)
        return self._run(self.items[i])

    def next_queued(self):
        for it in self.items:
            if it.state == "queued":
                return it
        return None

    def worker_loop(self, n=None):
        """Run queued items until shut down (or n items were taken)."""
        self.workers += 1
        self.active_workers += 1
        try:
            k = 0
            while n is None or k < n:
                self.mc.wait_until(lambda: self.next_queued() is not None or self.down)
                it = self.next_queued()
                if it is None:
                    return
                self._run(it)
                k += 1
        finally:
            self.active_workers -= 1

    def complete(self, i, value=None, exc=None):
        """hold mode: finish the i-th future directly."""
        self.mc.wait_until(lambda: len(self.items) > i)
        it = self.items[i]
        f = it.future
        if f is None or not f.set_running_or_notify_cancel():
            it.state = "cancelled"
            if self.forget:
                it.fn = it.args = it.kwargs = it.future = None
            return False
        it.state = "done"
        if exc is not None:
            self.mc.emit("base.end", b=self.lab, i=i, out=("err", brief(exc)))
            f.set_exception(exc)
        else:
            self.mc.emit("base.end", b=self.lab, i=i, out=("ok", brief(value)))
            f.set_result(value)
        self.mc.emit("base.resolved", b=self.lab, i=i)
        if self.forget:
            it.fn = it.args = it.kwargs = it.future = None
        return True

    def forget_finished(self):
        """drop every reference held for items whose future is finished or cancelled"""
        for it in self.items:
            f = it.future
            if f is not None and f.done():
                it.fn = it.args = it.kwargs = it.future = None

    def futures(self):
        return [it.future for it in self.items]


class Script(object):
    """Scripted user code.  entries: list of actions, the last one repeats:
         ('ret', v) | ('raise', cls, tag) | ('reraise',) re-raise first argument |
         ('call', fn) -> return fn(*args, **kwargs) | ('argret',) -> return first arg
    Every invocation is logged (start/end) and contains a scheduling point."""

    def __init__(self, mc, label, entries, point=True, duration=0.0):
        self.mc = mc
        self.duration = duration        # virtual time every invocation takes
        self.label = label
        self.entries = list(entries)
        self.calls = []
        self.raised = []
        self.active = 0
        self.max_active = 0
        self.point = point

    @property
    def __name__(self):
        return self.label

    def __call__(self, *args, **kwargs):
        k = len(self.calls)
        self.calls.append((args, kwargs))
        ent = self.entries[min(k, len(self.entries) - 1)]
        self.active += 1
        self.max_active = max(self.max_active, self.active)
        self.mc.emit("fn.start", fn=self.label, k=k, args=brief(args), kwargs=brief(kwargs))
        try:
            if self.point:
                self.mc.point()
            if self.duration:
                self.mc.sleep(self.duration)
            act = ent[0]
            if act == "ret":
                out = ent[1]
            elif act == "raise":
                exc = ent[1](ent[2] if len(ent) > 2 else "%s#%d" % (self.label, k))
                self.raised.append(exc)
                raise exc
            elif act == "reraise":
                raise args[0]
            elif act == "call":
                out = ent[1](*args, **kwargs)
            elif act == "argret":
                out = args[0]
            else:
                raise sched.CheckerError("bad script entry %r" % (ent,))
        except sched.Abort:
            raise
        except BaseException as e:
            self.active -= 1
            self.mc.emit("fn.end", fn=self.label, k=k, out=("err", brief(e)))
            raise
        self.active -= 1
        self.mc.emit("fn.end", fn=self.label, k=k, out=("ok", brief(out)))
        return out


class CbProbe(object):
    """A done-callback that logs its invocation."""

    def __init__(self, mc, label, raises=False, tag=None):
        self.mc = mc
        self.label = label
        self.n = 0
        self.raises = raises
        self.tag = tag or ("cb-" + label)
        self.seen_done = []

    def __call__(self, f):
        self.n += 1
        d = f.done()
        self.seen_done.append(d)
        self.mc.emit("cb", cb=self.label, n=self.n, done=d, snap=snapshot(f))
        if self.raises:
            raise E(self.tag)

"""Entry point: run_check <ID> --tier quick|thorough [--replay PATH] [--harness PAT] [--bound N]"""
import argparse
import os
import sys


def main(argv=None):
    ap = argparse.ArgumentParser()
    ap.add_argument("cid", nargs="?")
    ap.add_argument("--tier", default=os.environ.get("VERIF_TIER", "quick"), choices=["quick", "thorough"])
    ap.add_argument("--replay")
    ap.add_argument("--harness")
    ap.add_argument("--bound", type=int)
    ap.add_argument("--budget-s", type=float, default=None)
    ap.add_argument("--selftest", action="store_true")
    a = ap.parse_args(argv)
    seed = int(os.environ.get("VERIF_SEED", "0") or 0)
    sys.path.insert(0, os.path.dirname(os.path.dirname(os.path.abspath(__file__))))
    from mc import sched
    try:
        if a.selftest:
            from selftest import toy
            return toy.main()
        from mc import run
        if a.replay:
            return run.replay(a.cid, a.replay)
        budget = a.budget_s
        if budget is None and os.environ.get("VERIF_BUDGET_S"):
            budget = float(os.environ["VERIF_BUDGET_S"])
        return run.run_check(a.cid, a.tier, seed, only=a.harness, bound_override=a.bound, budget_s=budget)
    except sched.CheckerError as e:
        sys.stdout.write("CHECK-ERROR %s\n" % e)
        return 2


if __name__ == "__main__":
    rc = main()
    sys.stdout.flush()
    os._exit(rc)

"""Parallel exploration driver, evidence writer, known-findings matcher, replay."""
import collections
import fnmatch
import gc
import hashlib
import importlib
import json
import multiprocessing
import os
import queue as _queue
import random
import sys
import time
import traceback

from . import sched, seams, harness as H

VERIF = os.path.dirname(os.path.dirname(os.path.abspath(__file__)))
NPROC = int(os.environ.get("VERIF_NPROC", "0")) or min(16, os.cpu_count() or 1)


def load_check(cid):
    """Install seams, import the check module; returns it."""
    prom = cid.upper() == "C20"
    seams.install(prometheus=prom, fakeprom_path=os.path.join(VERIF, "mc", "fakeprom"))
    mod = importlib.import_module("checks.%s" % cid.lower())
    return mod


# ------------------------------------------------------------------ worker side
def _task(args):
    hname, pi, stack, bound, budget, order, jump = args
    try:
        h = H.HARNESSES[hname]
        st, rest = H.explore(h, pi, stack, bound, budget, order=order, jump=jump)
        return ("ok", args[:2] + (bound, order, jump), st, rest)
    except sched.CheckerError as e:
        return ("err", args[:2], "CheckerError: %s" % e, None)
    except BaseException as e:
        return ("err", args[:2], "".join(traceback.format_exception(type(e), e, e.__traceback__)), None)


def _winit():
    # one core per worker: all logical threads of an execution then hand the baton over
    # on the same CPU (cross-core wake-ups made executions 3-10x slower and erratic)
    try:
        ident = multiprocessing.current_process()._identity
        cpus = sorted(os.sched_getaffinity(0))
        os.sched_setaffinity(0, {cpus[(ident[0] - 1) % len(cpus)]})
    except Exception:
        pass
    gc.collect()
    gc.freeze()


# ------------------------------------------------------------------ known findings
def load_known():
    p = os.path.join(VERIF, "known_findings.json")
    if not os.path.exists(p):
        return []
    with open(p) as f:
        return json.load(f).get("findings", [])


def match_known(known, v):
    for k in known:
        if k.get("status") != "known":
            continue
        if k.get("property") != v["prop"]:
            continue
        m = k.get("match", {})
        if "harness" in m and not fnmatch.fnmatch(v["harness"], m["harness"]):
            continue
        if "rule" in m and m["rule"] != v["rule"]:
            continue
        ok = True
        for fk, fv in m.get("facts", {}).items():
            if str(v["facts"].get(fk)) != str(fv):
                ok = False
                break
        if ok:
            return k
    return None


# ------------------------------------------------------------------ driver
def expand_plan(mod, tier, only=None, bound_override=None):
    plan = mod.PLAN[tier]
    tasks = []
    table = []
    for ent in plan:
        h = H.HARNESSES[ent["harness"]]
        if only and not fnmatch.fnmatch(h.name, only):
            continue
        sel = ent.get("select")
        b = ent.get("bound", 0)
        n = 0
        for pi, p in enumerate(h.params):
            if sel is not None and not sel(p):
                continue
            bb = b(p) if callable(b) else b
            if bound_override is not None:
                bb = bound_override
            tasks.append((h.name, pi, [((), 0, None)], bb, ent.get("budget", 400),
                          ent.get("order", "rr"), ent.get("jump", False)))
            n += 1
        table.append(dict(harness=h.name, params=n, bound=(b if not callable(b) else "per-param"),
                          cost_model=h.cost, order=ent.get("order", "rr"), jump=ent.get("jump", False),
                          traced=list(h.traced), horizon=h.horizon))
    return tasks, table


def run_check(cid, tier, seed, only=None, bound_override=None, budget_s=None, quiet=False):
    t0 = time.time()
    mod = load_check(cid)
    known = load_known()
    tasks, table = expand_plan(mod, tier, only, bound_override)
    if not tasks:
        raise sched.CheckerError("no tasks for %s/%s" % (cid, tier))
    rnd = random.Random(seed)
    rnd.shuffle(tasks)
    total = H.Stats()
    errors = []
    capped = False
    ctx = multiprocessing.get_context("fork")
    gc.collect()
    gc.freeze()
    nproc = NPROC
    pool = ctx.Pool(nproc, initializer=_winit)
    try:
        pending = collections.deque(tasks)
        results = _queue.Queue()
        inflight = 0

        def cb(r):
            results.put(r)

        def ecb(e):
            results.put(("err", None, repr(e), None))

        while pending or inflight:
            while pending and inflight < nproc * 3:
                if budget_s is not None and time.time() - t0 > budget_s:
                    capped = True
                    pending.clear()
                    break
                pool.apply_async(_task, (pending.popleft(),), callback=cb, error_callback=ecb)
                inflight += 1
            if not inflight:
                break
            r = results.get()
            inflight -= 1
            if r[0] == "err":
                errors.append(r[2])
                pending.clear()
                continue
            _, key, st, rest = r
            total.merge(st)
            if rest:
                hname, pi, bound, order, jump = key
                # split what is left into independent sub-tree tasks
                rnd.shuffle(rest)
                chunk = max(1, len(rest) // (nproc * 2))
                for i in range(0, len(rest), chunk):
                    pending.append((hname, pi, rest[i:i + chunk], bound, 3000, order, jump))
        pool.close()
        pool.join()
    finally:
        pool.terminate()
    wall = time.time() - t0
    if errors:
        sys.stdout.write("CHECK-ERROR property=%s\n%s\n" % (cid, errors[0]))
        return 2
    # ---- extra (non-explorer) verdicts provided by the check module
    post = getattr(mod, "post", None)
    extra = {}
    if post is not None:
        extra = post(total, tier) or {}
    # ---- classify violations
    new, seen_known = [], []
    rdir = os.path.join(VERIF, "replays", cid.upper())
    for sig, v in sorted(total.viol.items()):
        k = match_known(known, v)
        path = write_replay(rdir, sig, v)
        if k is not None:
            seen_known.append((k, sig, path))
        else:
            new.append((sig, v, path))
    kf_printed = set()
    for k, sig, path in seen_known:
        if k["id"] in kf_printed:
            continue
        kf_printed.add(k["id"])
        sys.stdout.write("KNOWN-FINDING: property=%s %s [%s] replay=%s\n" % (cid.upper(), k["id"], k["description"], path))
    for sig, v, path in new:
        sys.stdout.write("VIOLATION property=%s replay=%s\n" % (cid.upper(), path))
        sys.stdout.write("  signature: %s\n  cost=%d choices=%d end=%s detail=%s\n" % (
            sig, v["cost"], len(v["choices"]), v["end"], v.get("detail")))
    write_evidence(cid, tier, seed, total, table, wall, capped, new, seen_known, mod, extra)
    if not quiet:
        sys.stdout.write("%s %s: executions=%d transitions=%d states=%d distinct_logs=%d outcomes=%d "
                         "ends=%s violations=%d known=%d wall=%.1fs%s\n" % (
                             cid.upper(), tier, total.executions, total.transitions, len(total.fps),
                             len(total.loghashes) + len(total.seqhashes), len(total.outcomes), total.ends, len(new), len(seen_known), wall,
                             " (CAPPED by time budget: not exhaustive)" if capped else ""))
    return 1 if new else 0


def write_replay(rdir, sig, v):
    os.makedirs(rdir, exist_ok=True)
    hsh = hashlib.sha1(sig.encode()).hexdigest()[:12]
    path = os.path.join(rdir, "%s.json" % hsh)
    doc = dict(property=v["prop"], harness=v["harness"], param_index=v["pi"],
               param=H._jsonable(H.HARNESSES[v["harness"]].params[v["pi"]]) if v["harness"] in H.HARNESSES else None,
               choices=v["choices"], order=v.get("order", "rr"), jump=v.get("jump", False),
               signature=sig, rule=v["rule"], facts={k: str(x) for k, x in v["facts"].items()},
               detail=v.get("detail"), end=v["end"], cost=v["cost"],
               thread_table=v.get("table"), waitfor=v.get("waitfor"), log=v.get("log"))
    with open(path, "w") as f:
        json.dump(doc, f, indent=1, default=repr)
    return path


def write_evidence(cid, tier, seed, st, table, wall, capped, new, seen_known, mod, extra):
    edir = os.path.join(VERIF, "evidence")
    if os.path.realpath(os.environ.get("VERIF_REPO", "/repo")) != "/repo":
        # a run against some other tree (a seeded change in a scratch worktree) must not replace the
        # evidence of /repo's working tree
        edir = os.path.join(VERIF, ".work", "evidence_other_tree")
    os.makedirs(edir, exist_ok=True)
    cov = dict(
        states=len(st.fps), transitions=st.transitions,
        traces_validated_against_impl=st.executions + st.reruns,
        samples=st.samples[:4] or [dict(note="no sample recorded")],
        evaluations=st.executions + st.cases,
        executions=st.executions,
        input_cases_inside_executions=st.cases,
        distinct_nontrivial=len(st.loghashes) + len(st.seqhashes),
        distinct_concurrent_logs=len(st.loghashes),
        distinct_sequential_cases=len(st.seqhashes),
        rule=("stateless DFS by re-execution of the real code under a controlled scheduler: every choice "
              "list within the deviation bound of each (harness, parameter) cell is executed once; "
              "distinct_nontrivial = number of distinct client-visible event logs among executions in "
              "which at least two logical threads logged an event, plus - for single-threaded input/history "
              "enumeration harnesses - the number of distinct (event log, observation) pairs; states = distinct fingerprints "
              "(thread locations + primitive states) at choice points (reporting only, never pruning)"),
        exhaustive=not capped,
        outcomes=len(st.outcomes),
        endings=st.ends,
        determinism_reruns=st.reruns,
        max_choice_points=st.max_choice_points,
        step_caps_hit=st.caps,
        cells=table,
        per_harness=st.per_harness,
        lock_order_edges=len(st.lock_edges),
        known_findings_seen=sorted(set(k["id"] for k, _, _ in seen_known)),
        new_violation_signatures=[s for s, _, _ in new],
    )
    cov.update(extra or {})
    doc = dict(property_id=cid.upper(), tier=tier, seed=seed, level="model_checking", coverage=cov,
               assumptions=list(getattr(mod, "ASSUMPTIONS", [])) + [
                   "atomic step = one source line of traced library modules / one shim synchronisation operation",
                   "stdlib concurrent.futures explored at synchronisation-operation granularity (trusted)",
                   "virtual time: computation takes zero time; clock advances only when nothing is runnable (TM-instant)"],
               wall_s=round(wall, 2), violations=len(new))
    with open(os.path.join(edir, "%s.json" % cid.upper()), "w") as f:
        json.dump(doc, f, indent=1, default=repr)


def replay(cid, path):
    mod = load_check(cid)
    with open(path) as f:
        doc = json.load(f)
    h = H.HARNESSES[doc["harness"]]
    x = H.execute(h, h.params[doc["param_index"]], tuple(doc["choices"]), order=doc.get("order", "rr"),
                  jump=doc.get("jump", False))
    for e in x.log:
        print("  %4d t=%-8g %-10s %-14s %s" % (e["seq"], e["t"], e["th"], e["kind"],
                                                {k: v for k, v in e.items() if k not in ("seq", "t", "th", "kind")}))
    print("end:", x.end)
    for row in x.table:
        print("  thread", row)
    if x.waitfor:
        print("wait-for:", x.waitfor)
    bad = 0
    for rule, facts, detail in x.violations:
        sig = H.sig_of(h.prop, h.name, rule, facts)
        print("VIOLATION property=%s replay=%s" % (h.prop, path))
        print("  signature:", sig, "detail:", detail)
        bad = 1
    return bad

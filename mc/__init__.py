"""mc - model checking machinery for more-executors (see /verif/DESIGN.md)."""

"""Harness registry, single execution, and the stateless DFS explorer."""
import gc
import hashlib
import json
import sys
import traceback

from . import sched, seams, trace

HARNESSES = {}


class Harness(object):
    def __init__(self, name, fn, prop, traced, horizon, cost, params, step_cap, engine):
        self.name = name
        self.fn = fn
        self.prop = prop
        self.traced = tuple(traced)
        self.horizon = horizon
        self.cost = cost
        self.params = params
        self.step_cap = step_cap
        self.oracle = None
        self.engine = engine


def harness(name, prop, traced=("*",), horizon=100.0, cost="delay", params=None,
            step_cap=20000, engine="A"):
    def deco(fn):
        if name in HARNESSES:
            raise sched.CheckerError("duplicate harness %s" % name)
        h = Harness(name, fn, prop, traced, horizon, cost, params if params is not None else [{}],
                    step_cap, engine)
        HARNESSES[name] = h
        fn.harness = h
        return fn
    return deco


def oracle(name):
    def deco(fn):
        HARNESSES[name].oracle = fn
        return fn
    return deco


class Ctx(object):
    """What a harness body sees as `mc`."""

    def __init__(self, s, param):
        self.s = s
        self.p = param

    @property
    def clock(self):
        return self.s.clock

    def spawn(self, fn, name=None, client=True):
        return self.s.spawn(fn, name=name, client=client)

    def point(self, loc=None):
        self.s.point(loc)

    def sleep(self, dt):
        self.s.sleep(dt)

    def wait_until(self, pred, timeout=None):
        return self.s.wait_until(pred, timeout)

    def choose(self, n):
        return self.s.choose(n)

    def forced(self, on):
        """Set-up phase: while on, every scheduling point takes the default (first) thread and
        is not a choice point; exploration starts from the state the default schedule reaches."""
        self.s.forced = bool(on)

    def emit(self, kind, **data):
        return self.s.emit(kind, **data)

    def observe(self, **kw):
        self.s.obs.update(kw)

    def call(self, label, fn, *a, **kw):
        """Log call and return (or raise) of a client operation."""
        self.s.emit("call", op=label)
        try:
            r = fn(*a, **kw)
        except sched.Abort:
            raise
        except BaseException as e:
            self.s.emit("raise", op=label, exc=type(e).__name__, msg=str(e)[:120])
            raise
        self.s.emit("ret", op=label, val=_brief(r))
        return r

    def run_atexit(self):
        for fn, a, k in list(self.s.atexit):
            fn(*a, **k)


def _brief(v):
    if isinstance(v, (bool, int, float, str, type(None))):
        return v
    if isinstance(v, tuple) and all(isinstance(x, (bool, int, float, str, type(None))) for x in v):
        return v
    return type(v).__name__


class Exec(object):
    """Result of one execution."""

    def __init__(self, h, param, s, error=None):
        self.h = h
        self.p = param
        self.trace = s.trace
        self.hashes = s.hashes
        self.end = s.end_reason
        self.table = s.final_table or []
        self.waitfor = s.waitfor
        self.log = s.log
        self.obs = s.obs
        self.deaths = s.deaths
        self.logrecords = s.logrecords
        self.steps = s.steps
        self.fps = s.fps
        self.clock = s.clock
        self.lock_edges = s.lock_edges
        self.violations = []
        self.nthreads_logged = sum(1 for t in s.threads if t.logged)
        self.nthreads = len(s.threads)

    # oracle helpers ------------------------------------------------------
    def require(self, cond, rule, detail=None, **facts):
        if not cond:
            self.violations.append((rule, facts, detail))
        return cond

    def events(self, kind=None, **match):
        out = []
        for e in self.log:
            if kind is not None and e["kind"] != kind:
                continue
            ok = True
            for k, v in match.items():
                if e.get(k) != v:
                    ok = False
                    break
            if ok:
                out.append(e)
        return out

    def loghash(self):
        return hash(tuple((e["th"], e["kind"], e["t"],
                           tuple(sorted((k, repr(v)) for k, v in e.items()
                                        if k not in ("seq", "t", "th", "kind"))))
                          for e in self.log))

    def choices(self):
        return [c for (_, c, _) in self.trace]


_traced_now = None
_nexec = 0


def execute(h, param, prefix=(), expect=None, jump=False, order="rr"):
    """Run harness h once with the given choice prefix; returns Exec (oracle applied)."""
    global _traced_now
    if _traced_now != h.traced:
        trace.set_traced(h.traced)
        _traced_now = h.traced
    s = sched.Scheduler(prefix=prefix, horizon=h.horizon, step_cap=h.step_cap, order=order,
                        expect=expect, jump=jump)
    herr = []

    def main():
        seams.fresh()
        ctx = Ctx(s, param)
        try:
            h.fn(ctx, param)
        except sched.Abort:
            raise
        except BaseException as e:
            tb = e.__traceback__
            through_lib = False
            while tb is not None:
                if tb.tb_frame.f_code.co_filename.startswith(seams.REPO + "/"):
                    through_lib = True
                tb = tb.tb_next
            herr.append(("".join(traceback.format_exception(type(e), e, e.__traceback__)), through_lib, type(e).__name__))
            e = None
            raise

    gc.disable()
    try:
        s.run(main)
    finally:
        pass
    escaped = None
    if herr and s.end_reason != "divergence":
        text, through_lib, etype = herr[0]
        if not through_lib:
            # no library frame on the stack: a bug of the harness itself
            raise sched.CheckerError("harness %s raised:\n%s" % (h.name, text))
        # an exception raised inside the library came out of a public call the harness did not
        # expect to raise: that is a verdict about the library, not a checker failure
        escaped = (etype, text)
    x = Exec(h, param, s)
    x.jump = jump
    if escaped is not None:
        x.violations.append(("library-exception-escaped-to-caller", dict(exc=escaped[0]), escaped[1][-700:]))
        return _finish(x, s)
    if h.oracle is not None:
        try:
            h.oracle(x)
        except Exception as e:
            raise sched.CheckerError("oracle of %s raised:\n%s" % (
                h.name, "".join(traceback.format_exception(type(e), e, e.__traceback__))))
    return _finish(x, s)


def _finish(x, s):
    s.threads = []
    s = None
    global _nexec
    _nexec += 1
    # young generation only: everything the execution allocated is new; the explorer's
    # (large) stack of pending prefixes is promoted once and not rescanned every time
    gc.collect(0 if _nexec & 255 else 2)
    return x


def sig_of(prop, hname, rule, facts):
    return "%s|%s|%s|%s" % (prop, hname, rule, ",".join("%s=%s" % (k, facts[k]) for k in sorted(facts)))


class Stats(object):
    def __init__(self):
        self.executions = 0
        self.transitions = 0
        self.fps = set()
        self.loghashes = set()
        self.seqhashes = set()
        self.outcomes = set()
        self.ends = {}
        self.viol = {}           # sig -> dict(cost, choices, rule, facts, detail, harness, pi)
        self.reruns = 0
        self.max_choice_points = 0
        self.caps = 0
        self.samples = []
        self.lock_edges = set()
        self.per_harness = {}
        self.cases = 0           # extra evaluations reported by harnesses that loop over inputs

    def merge(self, o):
        self.cases += o.cases
        self.executions += o.executions
        self.transitions += o.transitions
        self.fps |= o.fps
        self.loghashes |= o.loghashes
        self.seqhashes |= o.seqhashes
        self.outcomes |= o.outcomes
        for k, v in o.ends.items():
            self.ends[k] = self.ends.get(k, 0) + v
        for k, v in o.viol.items():
            if k not in self.viol or (v["cost"], len(v["choices"])) < (self.viol[k]["cost"], len(self.viol[k]["choices"])):
                self.viol[k] = v
        self.reruns += o.reruns
        self.max_choice_points = max(self.max_choice_points, o.max_choice_points)
        self.caps += o.caps
        if len(self.samples) < 6:
            self.samples.extend(o.samples[: 6 - len(self.samples)])
        self.lock_edges |= o.lock_edges
        for k, v in o.per_harness.items():
            d = self.per_harness.setdefault(k, dict(executions=0, violations=0))
            d["executions"] += v["executions"]
            d["violations"] += v["violations"]


def explore(h, pi, stack, bound, budget, order="rr", jump=False, rerun_stride=97):
    """DFS by re-execution.  stack: list of (prefix tuple, cost, expect).  Runs at most
    `budget` executions; returns (Stats, remaining stack)."""
    st = Stats()
    param = h.params[pi]
    ph = st.per_harness.setdefault(h.name, dict(executions=0, violations=0))
    while stack and budget > 0:
        item = stack.pop()
        if len(item) == 3:
            prefix, cost, expect = item
        else:  # lazy child: (parent choices list, i, alt, cost, expect)
            parent, i, alt, cost, expect = item
            prefix = tuple(parent[:i]) + (alt,)
        budget -= 1
        x = execute(h, param, prefix, expect=expect, jump=jump, order=order)
        st.executions += 1
        ph["executions"] += 1
        st.transitions += x.steps
        st.cases += int(x.obs.get("_cases", 0))
        st.fps |= x.fps
        st.ends[x.end] = st.ends.get(x.end, 0) + 1
        if x.end == "livelock":
            st.caps += 1
        lh = x.loghash()
        if x.nthreads_logged >= 2:
            st.loghashes.add(lh)
        else:
            # single-threaded input / history enumeration: distinct (log, observation) pairs
            st.seqhashes.add(hash((lh, repr(sorted(x.obs.items(), key=lambda kv: kv[0])))))
        st.outcomes.add(hash((x.end, repr(sorted(x.obs.items(), key=lambda kv: kv[0])))))
        st.lock_edges |= x.lock_edges
        tr = x.trace
        if len(tr) > st.max_choice_points:
            st.max_choice_points = len(tr)
        choices = [c for (_, c, _) in tr]
        if len(st.samples) < 2 and (cost > 0 or not prefix):
            st.samples.append(dict(harness=h.name, param=_jsonable(param), choices=choices[:60],
                                   end=x.end, events=[_ev_brief(e) for e in x.log[:40]]))
        if x.violations:
            for rule, facts, detail in x.violations:
                sig = sig_of(h.prop, h.name, rule, facts)
                ph["violations"] += 1
                old = st.viol.get(sig)
                if old is None or (cost, len(choices)) < (old["cost"], len(old["choices"])):
                    # determinism: the same choice list must violate identically, twice
                    ok = True
                    for _ in range(2):
                        y = execute(h, param, tuple(choices), jump=jump, order=order)
                        st.reruns += 1
                        if y.loghash() != lh or [v[0] for v in y.violations] != [v[0] for v in x.violations]:
                            ok = False
                    if not ok:
                        raise sched.CheckerError("non-deterministic violation in %s: %s" % (h.name, sig))
                    st.viol[sig] = dict(cost=cost, choices=choices, rule=rule, facts=facts,
                                        detail=detail, harness=h.name, pi=pi, prop=h.prop,
                                        end=x.end, table=x.table, waitfor=x.waitfor,
                                        log=[_ev_brief(e) for e in x.log[-80:]],
                                        order=order, jump=jump)
        elif rerun_stride and st.executions % rerun_stride == 0:
            y = execute(h, param, tuple(choices), jump=jump, order=order)
            st.reruns += 1
            if y.loghash() != lh or y.trace != tr:
                raise sched.CheckerError("non-deterministic execution in %s (choices %r)" % (h.name, choices))
        # children
        delay = h.cost == "delay"
        for i in range(len(prefix), len(tr)):
            n, c, ren = tr[i]
            step = 0 if ren is None else (1 if (delay or ren) else 0)
            if cost + step > bound:
                continue
            ex = (i, x.hashes[i])
            for alt in range(1, n):
                stack.append((choices, i, alt, cost + step, ex))
    # materialise what is left
    rest = []
    for item in stack:
        if len(item) == 3:
            rest.append(item)
        else:
            parent, i, alt, cost, expect = item
            rest.append((tuple(parent[:i]) + (alt,), cost, expect))
    return st, rest


def _ev_brief(e):
    return {k: (v if isinstance(v, (bool, int, float, str, type(None), list, tuple)) else repr(v))
            for k, v in e.items()}


def _jsonable(p):
    try:
        json.dumps(p)
        return p
    except TypeError:
        return repr(p)


def stuck_threads(x):
    """Classify the final thread table: returns list of rows that are blocked for ever on a
    lock or join whose holder can never proceed (cycle, self-edge, or holder idle for ever)."""
    rows = {r["name"]: r for r in x.table}
    memo = {}

    def status(name, path):
        if name in memo:
            return memo[name]
        r = rows.get(name)
        if r is None:
            return "live"
        if name in path:
            return "stuck"      # cycle
        if r["state"] in ("finished",):
            res = "gone"
        elif r["state"] == "runnable":
            res = "live"
        elif r["deadline"] is not None and r["deadline"] <= x.h.horizon:
            res = "live"
        elif r["on_kind"] in ("lock", "join"):
            owner = r["on_owner"]
            if owner is None:
                res = "live" if r["on_kind"] == "lock" else "idle"
            else:
                o = status(owner, path + [name])
                if r["on_kind"] == "join":
                    res = "live" if o in ("live", "gone") else "stuck"
                else:
                    # a lock owned by a finished thread is never released
                    res = "live" if o == "live" else "stuck"
        else:
            res = "idle"
        memo[name] = res
        return res

    out = []
    for name in rows:
        if status(name, []) == "stuck":
            out.append(rows[name])
    return out

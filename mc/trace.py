"""Line-granularity scheduling points through sys.monitoring (PEP 669)."""
import sys
import types

from . import sched

TOOL = 4
_mon = sys.monitoring
_installed = False
_current_codes = set()
_all_codes = {}      # module short name -> set(code objects)
_short = {}          # code -> short file name


def _codes_of_function(fn, out):
    seen = set()
    while fn is not None and id(fn) not in seen:
        seen.add(id(fn))
        code = getattr(fn, "__code__", None)
        if code is not None:
            _walk_code(code, out)
        fn = getattr(fn, "__wrapped__", None)


def _walk_code(code, out):
    if code in out:
        return
    out.add(code)
    for c in code.co_consts:
        if isinstance(c, types.CodeType):
            _walk_code(c, out)


def codes_of_module(mod):
    out = set()
    fname = getattr(mod, "__file__", None)

    def visit(obj, depth=0):
        if isinstance(obj, (types.FunctionType,)):
            _codes_of_function(obj, out)
        elif isinstance(obj, (classmethod, staticmethod)):
            visit(obj.__func__, depth)
        elif isinstance(obj, property):
            for f in (obj.fget, obj.fset, obj.fdel):
                if f is not None:
                    visit(f, depth)
        elif isinstance(obj, type) and depth < 3:
            if getattr(obj, "__module__", None) == mod.__name__:
                for v in list(vars(obj).values()):
                    visit(v, depth + 1)
        elif hasattr(obj, "__wrapped__") and depth < 3:
            visit(obj.__wrapped__, depth + 1)

    for v in list(vars(mod).values()):
        visit(v)
    # keep only code defined in this file
    return set(c for c in out if c.co_filename == fname)


def register_modules(mods):
    """mods: {short_name: module}"""
    for name, mod in mods.items():
        cs = codes_of_module(mod)
        _all_codes[name] = cs
        for c in cs:
            _short[c] = name


def _on_line(code, line):
    lt = getattr(sched._tls, "lt", None)
    if lt is None:
        return
    s = lt.sched
    if s is not sched._cur:
        return
    if s.phase != "run":
        if s.phase == "abort":
            raise sched.Abort()
        return
    if lt.atomic:
        return
    s.switch(lt, None, None, None, "line", (_short.get(code, "?"), code.co_name, line))


def _on_jump(code, src, dst):
    # backward jumps only: a loop iteration inside one source line (comprehensions, one-line
    # loops) is a place where CPython checks the eval breaker and may switch threads
    if dst >= src:
        return
    lt = getattr(sched._tls, "lt", None)
    if lt is None:
        return
    s = lt.sched
    if s is not sched._cur:
        return
    if s.phase != "run":
        if s.phase == "abort":
            raise sched.Abort()
        return
    if lt.atomic:
        return
    s.switch(lt, None, None, None, "loop", (_short.get(code, "?"), code.co_name, -dst))


def install():
    global _installed
    if _installed:
        return
    _mon.use_tool_id(TOOL, "mc-sched")
    _mon.register_callback(TOOL, _mon.events.LINE, _on_line)
    _mon.register_callback(TOOL, _mon.events.JUMP, _on_jump)
    _installed = True


def set_traced(names):
    """Enable LINE events exactly on the code objects of the named modules
    ('*' = every registered module)."""
    global _current_codes
    want = set()
    for n in names:
        if n == "*":
            for cs in _all_codes.values():
                want |= cs
        else:
            if n not in _all_codes:
                raise sched.CheckerError("unknown traced module %r (have %r)" % (n, sorted(_all_codes)))
            want |= _all_codes[n]
    for c in _current_codes - want:
        _mon.set_local_events(TOOL, c, 0)
    for c in want - _current_codes:
        _mon.set_local_events(TOOL, c, _mon.events.LINE | _mon.events.JUMP)
    _current_codes = want
    return len(want)
